#!/bin/bash
# Offline setup: nothing is built (pure Python explorer over the working tree). Checks the interpreter and creates output dirs.
set -e
cd "$(dirname "$0")"
mkdir -p evidence replays
PYTHONDONTWRITEBYTECODE=1 /venv/bin/python - <<'PY'
import sys
sys.path.insert(0, '/repo')
import numpy, automap, static_frame
print('setup ok: python', sys.version.split()[0], 'numpy', numpy.__version__, 'static_frame', static_frame.__version__, static_frame.__file__)
PY
