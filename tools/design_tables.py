#!/usr/bin/env python3
"""tools/design_tables.py <quick-log> [<thorough-log>] : print Markdown for DESIGN.md sections 8.2 (measured scope), 9.1 (repairs) and 9.2 (open findings)
from seeds.sh logs (lines "seed=N exit=E Cxx tier=... cases=... transitions=... states=... known=...") and known_findings.json."""
import collections, json, os, re, sys
HERE = os.path.dirname(os.path.dirname(os.path.abspath(__file__)))


def parse(path):
    rows = {}
    for l in open(path):
        m = re.search(r'(C\d\d) tier=(\w+) seed=(\d+) cases=(\d+) transitions=(\d+) states=(\d+) nontrivial=(\d+) outcomes=(\d+) known=(\d+) new_violations=(\d+)(?: wall=([\d.]+)s)?', l)
        if m:
            rows[m.group(1)] = dict(tier=m.group(2), cases=int(m.group(4)), transitions=int(m.group(5)), states=int(m.group(6)), nontrivial=int(m.group(7)),
                                    known=int(m.group(9)), new=int(m.group(10)), wall=m.group(11))
    return rows


def k(n):
    return f'{n / 1e6:.1f} M' if n >= 1e6 else (f'{n / 1e3:.0f} k' if n >= 10000 else str(n))


q = parse(sys.argv[1])
t = parse(sys.argv[2]) if len(sys.argv) > 2 else {}
print('| prop | quick: cases | transitions | distinct states | non-trivial | known keys | thorough: cases | transitions | distinct states | known keys |')
print('|---|---|---|---|---|---|---|---|---|---|')
for p in sorted(q):
    a, b = q[p], t.get(p)
    print(f"| {p} | {a['cases']} | {k(a['transitions'])} | {k(a['states'])} | {k(a['nontrivial'])} | {a['known']} | " +
          (f"{b['cases']} | {k(b['transitions'])} | {k(b['states'])} | {b['known']} |" if b else '- | - | - | - |'))
d = json.load(open(os.path.join(HERE, 'known_findings.json')))
fixed = [f for f in d['findings'] if f['status'] == 'fixed']
print(f'\n{len({f["commit"] for f in fixed})} fix commits, {len(fixed)} fixed entries:\n')
for f in fixed:
    print(f"* `{f['commit']}` ({f['property']}) {f['subject'][5:]}")
opened = collections.defaultdict(list)
for f in d['findings']:
    if f['status'] == 'open':
        opened[f['property']].append(f)
print()
for p in sorted(opened):
    texts = collections.OrderedDict()
    for f in opened[p]:
        texts.setdefault(f['what'], 0)
        texts[f['what']] += 1
    print(f'* **{p}** ({len(opened[p])} keys)')
    for w, n in texts.items():
        print(f'  * ({n}) {w}')
