#!/usr/bin/env python3
"""Run the repository's baseline suite (guard off) on a tree and compare with
/root/.vp/BASELINE.json stable_pass.  usage: baseline.py [repo_dir] [-n N]
exit 0 iff every stable_pass test passed."""
import json, os, subprocess, sys, tempfile, xml.etree.ElementTree as ET

def main():
    repo = '/repo'
    n = '16'
    args = sys.argv[1:]
    while args:
        a = args.pop(0)
        if a == '-n':
            n = args.pop(0)
        else:
            repo = a
    base = json.load(open('/root/.vp/BASELINE.json'))
    stable = set(base['stable_pass'])
    out = tempfile.mkdtemp(prefix='sfbase', dir='/var/tmp')
    junit = os.path.join(out, 'junit.xml')
    env = dict(os.environ)
    env.pop('STATIC_FRAME_VERIF', None)
    env['PYTHONDONTWRITEBYTECODE'] = '1'
    env['PYTHONPATH'] = repo
    # keep hypothesis from writing found examples into the repo's own database
    subprocess.run(['cp', '-r', os.path.join('/repo', '.hypothesis'), os.path.join(out, 'hyp')])
    env['HYPOTHESIS_STORAGE_DIRECTORY'] = os.path.join(out, 'hyp')
    cmd = ['/venv/bin/python', '-m', 'pytest', '-q', '-p', 'no:cacheprovider',
           '--timeout=900', '--continue-on-collection-errors',
           '--junitxml=' + junit]
    # hypothesis property tests crash pytest-xdist's scheduler (INTERNALERROR), so they run
    # in a second, sequential pytest process started concurrently.
    prop = 'static_frame/test/property'
    junit2 = os.path.join(out, 'junit2.xml')
    cmd2 = [c if not c.startswith('--junitxml') else '--junitxml=' + junit2 for c in cmd] + [prop]
    if n != '0':
        cmd += ['-n', n, '--ignore=' + prop]
        p2 = subprocess.Popen(cmd2, cwd=repo, env=env, stdout=subprocess.PIPE, stderr=subprocess.STDOUT, text=True)
    r = subprocess.run(cmd, cwd=repo, env=env, stdout=subprocess.PIPE, stderr=subprocess.STDOUT, text=True)
    tail = r.stdout.strip().splitlines()[-2:]
    junits = [junit]
    if n != '0':
        o2, _ = p2.communicate()
        tail += o2.strip().splitlines()[-2:]
        junits.append(junit2)
    passed = set()
    total = 0
    for j in junits:
      root = ET.parse(j).getroot()
      for tc in root.iter('testcase'):
        total += 1
        name = f"{tc.get('classname')}::{tc.get('name')}"
        bad = any(ch.tag in ('failure', 'error', 'skipped') for ch in tc)
        if not bad:
            passed.add(name)
    missing = sorted(stable - passed)
    attempt = 0
    while missing and len(missing) <= 40 and attempt < 3:
        attempt += 1
        # hypothesis property tests in the stable set are randomized (fresh examples every run) and have deadlines / health checks that
        # trip under load: re-run the missing ones alone, sequentially, up to three times before believing the failure
        ids = []
        for m in missing:
            cls, name = m.split('::')
            parts = cls.split('.')
            i = max(k for k, x in enumerate(parts) if x.startswith('test_'))
            ids.append('/'.join(parts[:i + 1]) + '.py::' + '::'.join(parts[i + 1:] + [name]))
        junit3 = os.path.join(out, 'junit3_%d.xml' % attempt)
        # a fresh copy of the example database: the copy used by the first run now holds the failing examples hypothesis found, and would replay them
        hyp = os.path.join(out, 'hyp_retry_%d' % attempt)
        subprocess.run(['cp', '-r', os.path.join('/repo', '.hypothesis'), hyp])
        env = dict(env, HYPOTHESIS_STORAGE_DIRECTORY=hyp)
        cmd3 = [c if not c.startswith('--junitxml') else '--junitxml=' + junit3 for c in cmd2[:-1]] + ids
        subprocess.run(cmd3, cwd=repo, env=env, stdout=subprocess.PIPE, stderr=subprocess.STDOUT, text=True)
        for tc in ET.parse(junit3).getroot().iter('testcase'):
            name = f"{tc.get('classname')}::{tc.get('name')}"
            if not any(ch.tag in ('failure', 'error', 'skipped') for ch in tc):
                passed.add(name)
        print('re-ran alone (attempt %d):' % attempt, len(missing), 'now missing:', len(stable - passed))
        missing = sorted(stable - passed)
    print('\n'.join(tail))
    print(f'total={total} passed={len(passed)} stable={len(stable)} stable_missing={len(missing)}')
    for m in missing[:40]:
        print('  MISSING', m)
    subprocess.run(['rm', '-rf', out])
    sys.exit(1 if missing else 0)

main()
