#!/venv/bin/python
"""tools/probe.py Cxx [tier] [max_cases]: run sequentially in-process, print first example per violation key class (split at |kinds=)."""
import os, sys, warnings
os.environ.setdefault('PYTHONHASHSEED', '0')
sys.path.insert(0, os.path.dirname(os.path.dirname(os.path.abspath(__file__))))
sys.path.insert(0, os.environ.get('VERIF_REPO', '/repo'))
warnings.filterwarnings('ignore')
import importlib
from mc import core
mod = importlib.import_module('mc.props.' + sys.argv[1].lower())
tier = sys.argv[2] if len(sys.argv) > 2 else 'quick'
mx = int(sys.argv[3]) if len(sys.argv) > 3 else 10**9
filt = sys.argv[4] if len(sys.argv) > 4 else ''
ctx = core.Ctx()
core.MAX_VIOLATIONS_KEPT = 10**6
seen = {}
for i, case in enumerate(mod.cases(tier)):
    if i >= mx: break
    if os.environ.get('PROBE_SKIP') and eval(os.environ['PROBE_SKIP'], {'case': case}): continue
    core.execute(mod, case, ctx, i)
for v in ctx.violations:
    k = v['key'].split('|kinds=')[0]
    if filt and filt not in v['key']: continue
    if k in seen: seen[k][0] += 1; continue
    seen[k] = [1, v]
for k, (n, v) in sorted(seen.items()):
    print(f'== {k}  (x{n})  case={v["case"][:150]}')
    for a, b in v['info'].items():
        print(f'     {a}: {b[-900:] if a == "traceback" else b[:300]}')
