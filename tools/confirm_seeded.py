#!/usr/bin/env python3
"""tools/confirm_seeded.py <Cxx|Cxx_r2> [...]
For each /tmp/sfwt/<Cxx>.out/{patch_a.diff,patch_b.diff,demo_*.py,meta.json}: in a scratch copy of /repo HEAD (under /var/tmp), confirm
 (1) the patch applies, (2) the demo passes without and fails with the patch, (3) the baseline stable set still passes with the patch.
Confirmed mutants are stored as /verif/seeded/<Cxx><a|b>/{patch.diff, demo.py, meta.json}. The scratch copy is removed."""
import json, os, shutil, subprocess, sys, tempfile
HERE = os.path.dirname(os.path.dirname(os.path.abspath(__file__)))

def run(cmd, **kw):
    return subprocess.run(cmd, stdout=subprocess.PIPE, stderr=subprocess.STDOUT, text=True, **kw)

def demo(repo, path):
    env = dict(os.environ, PYTHONPATH=repo, PYTHONDONTWRITEBYTECODE='1')
    r = run(['/venv/bin/python', path], cwd=repo, env=env, timeout=600)
    return r.returncode, r.stdout[-600:]

for arg in sys.argv[1:]:
    pid = arg.split('_')[0]          # C02 or C02_r2 (second round: patch_c / patch_d)
    out = f'/tmp/sfwt/{arg}.out'
    meta_all = []
    try:
        meta_all = json.load(open(os.path.join(out, 'meta.json')))
    except Exception as e:
        print(pid, 'no meta.json', e)
    for letter in 'abcdefghijkl':
        patch = os.path.join(out, f'patch_{letter}.diff')
        dem = os.path.join(out, f'demo_{letter}.py')
        if not (os.path.exists(patch) and os.path.exists(dem)):
            continue
        mid = f'{pid}{letter}'
        if os.path.exists(os.path.join(HERE, 'seeded', mid, 'patch.diff')):
            print(mid, 'already kept'); continue
        d = tempfile.mkdtemp(prefix='sfconf', dir='/var/tmp')
        try:
            run(['rsync', '-a', '--exclude', '.git', '--exclude', '__pycache__', '--exclude', 'doc', '/repo/', d + '/'])
            rc0, o0 = demo(d, dem)
            r = run(['patch', '-s', '-p1', '-d', d], stdin=open(patch))
            if r.returncode != 0:
                print(mid, 'PATCH DOES NOT APPLY', r.stdout[-300:]); continue
            rc1, o1 = demo(d, dem)
            b = run(['python3', os.path.join(HERE, 'tools', 'baseline.py'), d, '-n', '10'])
            base_ok = b.returncode == 0
            last = b.stdout.strip().splitlines()[-1] if b.stdout.strip() else ''
            ok = rc0 == 0 and rc1 != 0 and base_ok
            print(mid, 'demo_without=', rc0, 'demo_with=', rc1, 'baseline_ok=', base_ok, last, '=> KEEP' if ok else '=> REJECT')
            if ok:
                dst = os.path.join(HERE, 'seeded', mid)
                os.makedirs(dst, exist_ok=True)
                shutil.copy(patch, os.path.join(dst, 'patch.diff'))
                shutil.copy(dem, os.path.join(dst, 'demo.py'))
                m = next((x for x in meta_all if x.get('id') == mid), {})
                m = dict(m, id=mid, property=pid, confirmed={
                    'applies_to_repo_head': run(['git', '-C', '/repo', 'rev-parse', '--short', 'HEAD']).stdout.strip(),
                    'demo_exit_without_patch': rc0, 'demo_exit_with_patch': rc1, 'demo_output_with_patch': o1[-300:],
                    'baseline_with_patch': last, 'ran': 'tools/confirm_seeded.py (scratch copy under /var/tmp, removed afterwards)'})
                json.dump(m, open(os.path.join(dst, 'meta.json'), 'w'), indent=1)
        finally:
            shutil.rmtree(d, ignore_errors=True)
