#!/bin/bash
# usage: tools/with_patch.sh <patch.diff> <command...>
# Copies /repo's working tree (python sources only) to a scratch dir, applies the patch there,
# runs the command with VERIF_REPO pointing at the copy, removes the copy.
set -u
patch="$(readlink -f "$1")"; shift
d=$(mktemp -d /dev/shm/sfm.XXXXXX)
rsync -a --exclude '.git' --exclude '__pycache__' --exclude '.hypothesis' --exclude 'doc' /repo/ "$d"/
if [ "$patch" != "/dev/null" ]; then
  if ! patch -s -p1 -d "$d" < "$patch"; then echo "PATCH FAILED"; rm -rf "$d"; exit 3; fi
fi
# evidence files describe runs against /repo itself: a run against a patched copy must not leave its own behind
here="$(cd "$(dirname "$0")/.." && pwd)"
ev=$(mktemp -d /dev/shm/sfev.XXXXXX)
cp -a "$here/evidence/." "$ev"/ 2>/dev/null
VERIF_REPO="$d" "$@"
rc=$?
cp -a "$ev/." "$here/evidence"/ 2>/dev/null
rm -rf "$d" "$ev"
exit $rc
