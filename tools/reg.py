#!/usr/bin/env python3
"""tools/reg.py check <Cxx> <technique> <text> <note>   |   tools/reg.py fixed <Cxx> <commit-prefix-subject> <what>  |  tools/reg.py open <Cxx> <key> <what>"""
import json, subprocess, sys, os
HERE = os.path.dirname(os.path.dirname(os.path.abspath(__file__)))
cmd = sys.argv[1]
if cmd == 'check':
    pid, tech, text, note = sys.argv[2:6]
    p = os.path.join(HERE, 'tools', 'checks.json')
    d = json.load(open(p))
    d['checks'][pid] = {'technique': tech, 'text': text, 'note': note}
    json.dump(d, open(p, 'w'), indent=1)
    subprocess.run(['python3', os.path.join(HERE, 'tools', 'gen_manifest.py')])
else:
    p = os.path.join(HERE, 'known_findings.json')
    d = json.load(open(p))
    if cmd == 'fixed':
        pid, subj, what = sys.argv[2:5]
        log = subprocess.run(['git', '-C', '/repo', 'log', '--format=%h %s'], capture_output=True, text=True).stdout.splitlines()
        h = [l.split(' ', 1)[0] for l in log if subj in l]
        assert len(h) == 1, h
        d['findings'].append({'property': pid, 'status': 'fixed', 'commit': h[0], 'subject': [l.split(' ', 1)[1] for l in log if subj in l][0], 'key': None, 'what': f'fixed: property={pid} {h[0]} {what}'})
    elif cmd == 'open':
        pid, key, what = sys.argv[2:5]
        d['findings'] = [f for f in d['findings'] if not (f['property'] == pid and f['key'] == key)]
        d['findings'].append({'property': pid, 'status': 'open', 'key': key, 'what': what})
    json.dump(d, open(p, 'w'), indent=1)
