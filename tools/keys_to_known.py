#!/usr/bin/env python3
"""tools/keys_to_known.py <Cxx> <file with NEWKEY lines> : add each key as an open known finding, with a description composed by the property's describe_key()."""
import json, os, sys
HERE = os.path.dirname(os.path.dirname(os.path.abspath(__file__)))
pid, path = sys.argv[1:3]
prefix = sys.argv[3] if len(sys.argv) > 3 else ''
keys = sorted({l.split('NEWKEY ', 1)[1].strip() for l in open(path) if 'NEWKEY ' in l})
p = os.path.join(HERE, 'known_findings.json')
d = json.load(open(p))
have = {(f['property'], f['key']) for f in d['findings']}
sys.path.insert(0, HERE)
desc = json.load(open(os.path.join(HERE, 'tools', 'finding_text.json')))
n = 0
for k in keys:
    if (pid, k) in have:
        continue
    text = None
    for pat, t in desc.get(pid, []):
        if pat in k:
            text = t
            break
    if text is None:
        print('NO DESCRIPTION FOR', k)
        continue
    d['findings'].append({'property': pid, 'status': 'open', 'key': k, 'what': text})
    n += 1
json.dump(d, open(p, 'w'), indent=1)
print('added', n)
