#!/usr/bin/env python3
"""Re-resolve the commit hash of every fixed entry from its stored subject (after a history rewrite of /repo fix commits)."""
import json, subprocess, os
HERE = os.path.dirname(os.path.dirname(os.path.abspath(__file__)))
log = subprocess.run(['git', '-C', '/repo', 'log', '--format=%h %s'], capture_output=True, text=True).stdout.splitlines()
by_subject = {l.split(' ', 1)[1]: l.split(' ', 1)[0] for l in log}
p = os.path.join(HERE, 'known_findings.json')
d = json.load(open(p))
for f in d['findings']:
    if f['status'] == 'fixed' and f.get('subject'):
        h = by_subject.get(f['subject'])
        if h is None:
            print('MISSING COMMIT FOR', f['subject'])
        elif h != f['commit']:
            f['what'] = f['what'].replace(f['commit'], h)
            f['commit'] = h
json.dump(d, open(p, 'w'), indent=1)
