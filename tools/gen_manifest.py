#!/usr/bin/env python3
"""Regenerate MANIFEST.json from tools/checks.json (per-property texts) + the list of implemented modules."""
import json, os, subprocess
HERE = os.path.dirname(os.path.dirname(os.path.abspath(__file__)))
spec = json.load(open(os.path.join(HERE, 'tools', 'checks.json')))
props = [json.loads(l)['id'] for l in open(os.path.join(HERE, 'properties.jsonl'))]
hooks_commits = spec.get('hook_commits', [])
checks = []
na = []
for pid in props:
    c = spec['checks'].get(pid)
    if c and os.path.exists(os.path.join(HERE, 'mc', 'props', pid.lower() + '.py')) and not c.get('disabled'):
        checks.append({
            'property_id': pid,
            'quick_cmd': f'./check {pid} --tier quick',
            'thorough_cmd': f'./check {pid} --tier thorough',
            'evidence_file': f'/verif/evidence/{pid}.json',
            'replay_cmd_template': f'./check {pid} --replay {{path}}',
            'engine': 'mc-explorer',
            'level_claimed': {'category': 'model_checking', 'text': c['text'], 'design_ref': c.get('design_ref', 'DESIGN.md section 4 ' + pid)},
            'level_note': c['note'],
            'technique': c['technique'],
        })
    else:
        na.append({'property_id': pid, 'reason': (c or {}).get('na_reason', 'check not built yet in this round (planned: see DESIGN.md section 4); no claim is made')})
m = {
    'version': 1,
    'setup_cmd': './setup.sh',
    'hooks': {
        'guard': 'STATIC_FRAME_VERIF',
        'enable': 'no source hooks exist: every seam (executors, file mtime, input arrays) is substituted from the harness process; ./check exports STATIC_FRAME_VERIF=1 for uniformity only',
        'baseline_off_cmd': 'python3 /verif/tools/baseline.py /repo',
        'source_commits': hooks_commits,
        'add_only': True,
    },
    'engines': [{'name': 'mc-explorer', 'path': '/verif/mc', 'serves_properties': [c['property_id'] for c in checks],
                 'kind_free_text': 'hand-written explicit-state / bounded-exhaustive explorer in Python driving the real static_frame from the working tree (product enumeration, history BFS, fault-point and schedule enumeration) with reference models in Python'}],
    'checks': checks,
    'not_applicable': na,
    'notes': spec.get('notes', ''),
}
json.dump(m, open(os.path.join(HERE, 'MANIFEST.json'), 'w'), indent=1)
print('checks:', [c['property_id'] for c in checks], 'not_applicable:', [n['property_id'] for n in na])
