#!/usr/bin/env python3
"""tools/revert_fix_test.py : for every status=fixed entry of known_findings.json, re-introduce the defect (reverse patch of the fix commit applied to a
scratch copy of /repo) and run the property's quick check against the copy: the violation must be reported again ("a fixed entry suppresses nothing")."""
import json, os, subprocess, sys, tempfile
HERE = os.path.dirname(os.path.dirname(os.path.abspath(__file__)))
d = json.load(open(os.path.join(HERE, 'known_findings.json')))
rows = []
for f in d['findings']:
    if f['status'] != 'fixed' or (len(sys.argv) > 1 and not any(a in (f['commit'], f['property']) for a in sys.argv[1:])):
        continue
    c, pid = f['commit'], f['property']
    rev = subprocess.run(['git', '-C', '/repo', 'diff', c, c + '^', '--', 'static_frame/core'], capture_output=True, text=True).stdout
    with tempfile.NamedTemporaryFile('w', suffix='.diff', dir='/var/tmp', delete=False) as t:
        t.write(rev)
    r = subprocess.run([os.path.join(HERE, 'tools', 'with_patch.sh'), t.name, os.path.join(HERE, 'check'), pid], capture_output=True, text=True)
    os.unlink(t.name)
    out = r.stdout + r.stderr
    viol = [l for l in out.splitlines() if l.startswith('VIOLATION')]
    status = 'PATCH FAILED' if 'PATCH FAILED' in out else ('detected' if viol and r.returncode == 1 else 'NOT DETECTED')
    key = viol[0].split('key=', 1)[1][:90] if viol else ''
    rows.append((pid, c, status, len(viol), key, f['subject'][:70]))
    print(*rows[-1], sep=' | ', flush=True)
