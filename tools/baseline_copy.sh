#!/bin/bash
# usage: tools/baseline_copy.sh <logfile> : baseline of a snapshot copy of /repo's working tree (so /repo can be edited meanwhile); copy removed afterwards
d=$(mktemp -d /var/tmp/sfsnap.XXXXXX)
rsync -a --exclude '.git' --exclude '__pycache__' --exclude 'doc' /repo/ "$d"/
python3 "$(dirname "$0")/baseline.py" "$d" -n 6 > "$1" 2>&1
echo "exit=$?" >> "$1"
rm -rf "$d"
