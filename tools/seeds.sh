#!/bin/bash
# tools/seeds.sh <tier> <seed...> : run every registered check for each seed, print one line per run, exit 1 if any run is not silent
cd "$(dirname "$0")/.."
tier=$1; shift
rc=0
for seed in "$@"; do
  for c in C01 C02 C03 C04 C05 C06 C07 C08 C09 C10 C11 C12 C13 C14 C15 C16 C17 C18 C19 C20; do
    out=$(VERIF_SEED=$seed ./check $c --tier $tier 2>&1); code=$?
    line=$(echo "$out" | grep -E "^$c tier" | sed 's/wall=.*//')
    echo "seed=$seed exit=$code $line"
    if [ $code -ne 0 ] || echo "$out" | grep -q "^VIOLATION\|HARNESS-ERROR"; then rc=1; echo "$out" | grep -E "^VIOLATION|HARNESS" | head -5; fi
  done
done
exit $rc
