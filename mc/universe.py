"""Explicit finite universes shared by the property checks."""
import itertools

import numpy as np

import static_frame as sf
from static_frame.core.type_blocks import TypeBlocks

NAN = float('nan')
NAT = np.datetime64('NaT')


def frozen(a):
    a = np.array(a) if not isinstance(a, np.ndarray) else a
    a.flags.writeable = False
    return a


def col(kind, n, variant=0):
    '''Deterministic column of length n for a dtype-kind name.'''
    v = variant
    if kind == 'int':
        a = np.array([(i * 3 + 1 + 7 * v) % 11 - 2 for i in range(n)], dtype=np.int64)
    elif kind == 'float':
        a = np.array([(i * 1.5 + 0.25 + v) for i in range(n)], dtype=np.float64)
    elif kind == 'floatnan':
        a = np.array([NAN if (i + v) % 2 == 1 else i + 0.5 + v for i in range(n)], dtype=np.float64)
    elif kind == 'bool':
        a = np.array([(i + v) % 2 == 0 for i in range(n)], dtype=bool)
    elif kind == 'str':
        a = np.array(['s%d%s' % (i, 'x' * v) for i in range(n)], dtype=str) if n else np.array([], dtype='<U2')
    elif kind == 'strw':
        a = np.array(['w' * (i + 1 + v) for i in range(n)], dtype=str) if n else np.array([], dtype='<U1')
    elif kind == 'obj':
        pool = [None, 'o', 3, 2.5, (1, 2), True]
        a = np.empty(n, dtype=object)
        for i in range(n):
            a[i] = pool[(i + v) % len(pool)]
    elif kind == 'objnum':
        a = np.empty(n, dtype=object)
        for i in range(n):
            a[i] = [1, 2.5, None, 4][(i + v) % 4]
    elif kind == 'date':
        a = np.array([np.datetime64('2020-01-0%d' % (1 + (i + v) % 9)) for i in range(n)], dtype='datetime64[D]') if n else np.array([], dtype='datetime64[D]')
    elif kind == 'datenat':
        a = np.array([NAT if (i + v) % 2 == 1 else np.datetime64('2020-01-0%d' % (1 + i % 9)) for i in range(n)], dtype='datetime64[D]') if n else np.array([], dtype='datetime64[D]')
    else:
        raise ValueError(kind)
    a.flags.writeable = False
    return a


def compositions(n):
    '''All compositions of n (ordered tuples of positive ints summing to n).'''
    if n == 0:
        yield ()
        return
    for first in range(1, n + 1):
        for rest in compositions(n - first):
            yield (first,) + rest


def layouts(cols):
    '''Every partition of the column sequence into blocks: consecutive runs whose
    members share a dtype may form one 2-D block; every width-1 block is offered
    both as a 1-D and as a (n,1) 2-D array.  Yields (signature, [blocks]).'''
    m = len(cols)
    if m == 0:
        yield ((), [])
        return
    for comp in compositions(m):
        start = 0
        runs = []
        ok = True
        for w in comp:
            run = cols[start:start + w]
            if any(c.dtype != run[0].dtype for c in run):
                ok = False
                break
            runs.append(run)
            start += w
        if not ok:
            continue
        singles = [i for i, r in enumerate(runs) if len(r) == 1]
        for dims in itertools.product((1, 2), repeat=len(singles)):
            dmap = dict(zip(singles, dims))
            blocks = []
            sig = []
            for i, r in enumerate(runs):
                if len(r) == 1 and dmap[i] == 1:
                    b = r[0]
                    sig.append('1')
                else:
                    b = np.column_stack(r) if len(r[0]) or True else None
                    if b.dtype != r[0].dtype:  # column_stack of U widths
                        b = b.astype(r[0].dtype)
                    b.flags.writeable = False
                    sig.append('2x%d' % len(r))
                blocks.append(b)
            yield (tuple(sig), blocks)


def frame_from_blocks(blocks, nrows, index=None, columns=None, cls=None, name=None):
    cls = cls or sf.Frame
    if not blocks:
        tb = TypeBlocks.from_zero_size_shape((nrows, 0))
    else:
        tb = TypeBlocks.from_blocks(blocks)
    return cls(tb, index=index, columns=columns, name=name, own_data=True)


def frame_canonical(cols, nrows, index=None, columns=None, cls=None, name=None):
    '''One 1-D block per column.'''
    return frame_from_blocks(list(cols), nrows, index=index, columns=columns, cls=cls, name=name)


def layout_list(cols, limit=None):
    out = list(layouts(cols))
    if limit is not None and len(out) > limit:
        # keep first (finest 1-D), last (coarsest) and an even spread
        step = max(1, len(out) // limit)
        out = out[::step][:limit - 1] + [out[-1]]
    return out


# ---------------------------------------------------------------------------
# positional keys

def int_keys(n):
    return list(range(-n - 1, n + 1))


def slice_keys(n, steps=(None, 1, 2, -1, -2), span=None):
    lo, hi = -n - 1, n + 1
    ends = [None] + list(range(lo, hi + 1))
    return [slice(a, b, c) for a in ends for b in ends for c in steps]


def list_keys(n, maxlen=3, repeats=True):
    out = [[]]
    pos = list(range(n))
    for L in range(1, maxlen + 1):
        for t in itertools.product(pos, repeat=L):
            if not repeats and len(set(t)) != L:
                continue
            out.append(list(t))
    return out


def mask_keys(n):
    return [np.array(t, dtype=bool) for t in itertools.product((False, True), repeat=n)]


def key_repr(k):
    if isinstance(k, np.ndarray):
        return f'np.array({k.tolist()!r}, dtype={k.dtype})'
    return repr(k)


def ref_positions(n, key):
    '''Python/NumPy list semantics for a positional key on an axis of length n.
    Returns ('scalar', pos) | ('multi', [pos...]) ; raises IndexError.'''
    if isinstance(key, (int, np.integer)) and not isinstance(key, (bool, np.bool_)):
        k = int(key)
        if k < -n or k >= n:
            raise IndexError(k)
        return ('scalar', k % n if n else k)
    if isinstance(key, slice):
        return ('multi', list(range(n))[key])
    if isinstance(key, np.ndarray) and key.dtype == bool:
        if len(key) != n:
            raise IndexError('mask length')
        return ('multi', [i for i, b in enumerate(key.tolist()) if b])
    if isinstance(key, (list, np.ndarray)):
        out = []
        for k in (key.tolist() if isinstance(key, np.ndarray) else key):
            if k < -n or k >= n:
                raise IndexError(k)
            out.append(k % n)
        return ('multi', out)
    raise TypeError(key)
