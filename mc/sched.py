"""Controlled executor for schedule enumeration (mode S).

`ScheduledExecutor` is a concurrent.futures.Executor that keeps submitted tasks
pending and completes them, one at a time and atomically, in an order chosen by
the explorer, subject to `max_workers`: a task may complete only if it has been
started, and tasks are started in submission order as workers become free.
`chunksize` groups the items of one map() call into tasks exactly as
ProcessPoolExecutor.map does (ThreadPoolExecutor ignores chunksize).
Everything runs in the calling thread: `Future.result()` drives the scheduler.

`explore(fn)` enumerates every choice sequence depth-first (choice 0 = earliest
started task first, i.e. submission order); executions are replayed from their
choice prefix, a replayed prefix that does not fit is a hard error.
"""
import itertools
from concurrent.futures import Executor, Future


class ScheduleError(Exception):
    pass


class Schedule:
    def __init__(self, prefix=()):
        self.prefix = list(prefix)
        self.trace = []      # (choice, n_options)
        self.completion_order = []

    def choose(self, n):
        i = len(self.trace)
        if i < len(self.prefix):
            c = self.prefix[i]
            if c >= n:
                raise ScheduleError(f'replayed choice {c} out of range {n} at point {i}')
        else:
            c = 0
        self.trace.append((c, n))
        return c


CURRENT = {'schedule': None, 'log': None}
SEQ = [0]


class _Task:
    __slots__ = ('fn', 'args', 'kwargs', 'future', 'ident', 'started', 'done')

    def __init__(self, fn, args, kwargs, future, ident):
        self.fn, self.args, self.kwargs, self.future, self.ident = fn, args, kwargs, future, ident
        self.started = False
        self.done = False


class _Future(Future):
    def __init__(self, executor):
        super().__init__()
        self._sched_executor = executor

    def result(self, timeout=None):
        if not self.done():
            self._sched_executor._run_until(self)
        return super().result(timeout=0)

    def exception(self, timeout=None):
        if not self.done():
            self._sched_executor._run_until(self)
        return super().exception(timeout=0)


def _boundary(x, depth=0):
    '''what crossing a process boundary does to a value: containers and arrays arrive as unpickled copies.  Functions (the harness passes lambdas, which a real
    pool could not carry) and other objects are left as they are; tuples / lists / dicts are walked.'''
    import pickle
    import numpy as _np
    try:
        from static_frame.core.container import ContainerBase as _CB
    except Exception:   # pragma: no cover
        _CB = ()
    if isinstance(x, _np.ndarray) or (_CB and isinstance(x, _CB)):
        try:
            return pickle.loads(pickle.dumps(x))
        except Exception:
            return x
    if depth < 4:
        if type(x) is tuple:
            return tuple(_boundary(v, depth + 1) for v in x)
        if type(x) is list:
            return [_boundary(v, depth + 1) for v in x]
        if type(x) is dict:
            return {k: _boundary(v, depth + 1) for k, v in x.items()}
    return x


def _run_chunk(fn, chunk):
    return [fn(*args) for args in chunk]


class ScheduledExecutor(Executor):
    kind = 'thread'      # 'process' executors honour chunksize in map()

    def __init__(self, max_workers=None, *args, **kwargs):
        self._max_workers = max_workers if max_workers else 64
        self._tasks = []
        self._shutdown = False
        if CURRENT['log'] is not None:
            CURRENT['log'].append((self.kind, max_workers))

    # -- scheduling ---------------------------------------------------------
    def _start_available(self):
        running = sum(1 for t in self._tasks if t.started and not t.done)
        for t in self._tasks:
            if running >= self._max_workers:
                break
            if not t.started:
                t.started = True
                running += 1

    def _step(self):
        self._start_available()
        runnable = [t for t in self._tasks if t.started and not t.done]
        if not runnable:
            raise ScheduleError('deadlock: a result is awaited but no task is runnable')
        sched = CURRENT['schedule']
        c = sched.choose(len(runnable)) if sched is not None and len(runnable) > 1 else 0
        t = runnable[c]
        if sched is not None:
            sched.completion_order.append(t.ident)
        SEQ[0] += 1
        t.future._sched_seq = SEQ[0]
        try:
            if self.kind == 'process':
                r = _boundary(t.fn(*_boundary(t.args), **_boundary(t.kwargs)))
            else:
                r = t.fn(*t.args, **t.kwargs)
        except BaseException as e:
            t.done = True
            t.future.set_exception(e)
        else:
            t.done = True
            t.future.set_result(r)

    def _run_until(self, future):
        while not future.done():
            self._step()

    # -- Executor interface -------------------------------------------------
    def submit(self, fn, /, *args, **kwargs):
        if self._shutdown:
            raise RuntimeError('cannot schedule new futures after shutdown')
        f = _Future(self)
        f.set_running_or_notify_cancel()
        self._tasks.append(_Task(fn, args, kwargs, f, len(self._tasks)))
        return f

    def map(self, fn, *iterables, timeout=None, chunksize=1):
        if self.kind == 'process' and chunksize > 1:
            items = list(zip(*iterables))
            chunks = [items[i:i + chunksize] for i in range(0, len(items), chunksize)]
            fs = [self.submit(_run_chunk, fn, ch) for ch in chunks]

            def gen():
                for f in fs:
                    yield from f.result()
            return gen()
        fs = [self.submit(fn, *args) for args in zip(*iterables)]

        def gen():
            for f in fs:
                yield f.result()
        return gen()

    def shutdown(self, wait=True, *, cancel_futures=False):
        self._shutdown = True
        if cancel_futures:
            for t in self._tasks:
                if not t.started and not t.done:
                    t.done = True
                    t.future.cancel()
        if wait:
            while any(not t.done for t in self._tasks):
                self._step()


class ScheduledThreadPool(ScheduledExecutor):
    kind = 'thread'


class ScheduledProcessPool(ScheduledExecutor):
    kind = 'process'


def explore(run, limit=None, max_deviations=None):
    '''run() executes the code under test once (it must be re-entrant: fresh objects every time).  Yields (trace, completion_order, result) for every
    feasible schedule; result is run()'s return value.  max_deviations bounds the number of points at which a task other than the earliest started
    one completes first (iterative context bounding: every schedule with at most that many deviations is executed, none with more).'''
    pending = [[]]
    count = 0
    while pending:
        prefix = pending.pop()
        s = Schedule(prefix)
        CURRENT['schedule'] = s
        try:
            out = run()
        finally:
            CURRENT['schedule'] = None
        choices = [c for c, _ in s.trace]
        if choices[:len(prefix)] != prefix:
            raise ScheduleError(f'replay diverged: {choices} does not extend {prefix}')
        yield s.trace, list(s.completion_order), out
        count += 1
        if limit is not None and count >= limit:
            return
        for i in range(len(s.trace) - 1, len(prefix) - 1, -1):
            c, n = s.trace[i]
            if max_deviations is not None and sum(1 for x in choices[:i] if x) >= max_deviations:
                continue
            for alt in range(n - 1, c, -1):
                pending.append(choices[:i] + [alt])


# ---------------------------------------------------------------------------
# as_completed / wait on controlled futures: drive the scheduler instead of blocking on a condition variable.  Patched into concurrent.futures at
# import time (./check imports this module before static_frame), and delegating to the originals for ordinary futures.
import concurrent.futures as _cf
import concurrent.futures._base as _cfb

_ORIG_AS_COMPLETED = _cfb.as_completed
_ORIG_WAIT = _cfb.wait


def as_completed(fs, timeout=None):
    fs = list(fs)
    if not any(isinstance(f, _Future) for f in fs):
        yield from _ORIG_AS_COMPLETED(fs, timeout)
        return
    pending = list(fs)
    while pending:
        done = [f for f in pending if f.done()]
        if not done:
            ex = next(f for f in pending if isinstance(f, _Future))._sched_executor
            ex._step()
            continue
        done.sort(key=lambda f: getattr(f, '_sched_seq', 0))
        for f in done:
            pending.remove(f)
            yield f


def wait(fs, timeout=None, return_when=_cfb.ALL_COMPLETED):
    fs = list(fs)
    if not any(isinstance(f, _Future) for f in fs):
        return _ORIG_WAIT(fs, timeout, return_when)
    while True:
        done = {f for f in fs if f.done()}
        if (return_when == _cfb.ALL_COMPLETED and len(done) == len(fs)) or (return_when != _cfb.ALL_COMPLETED and done):
            return _cfb.DoneAndNotDoneFutures(done, set(fs) - done)
        next(f for f in fs if not f.done() and isinstance(f, _Future))._sched_executor._step()


for _m in (_cf, _cfb):
    _m.as_completed = as_completed
    _m.wait = wait


def install(modules):
    '''replace ThreadPoolExecutor / ProcessPoolExecutor module globals; returns an undo function'''
    saved = []
    for m in modules:
        for name, repl in (('ThreadPoolExecutor', ScheduledThreadPool), ('ProcessPoolExecutor', ScheduledProcessPool)):
            if hasattr(m, name):
                saved.append((m, name, getattr(m, name)))
                setattr(m, name, repl)

    def undo():
        for m, name, orig in saved:
            setattr(m, name, orig)
    return undo
