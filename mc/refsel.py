"""Reference model of one labelled axis: positional and label selection written
from the statement of C04 (Python list semantics for positions; labels map to
positions; label slices include their stop; Boolean Series align by label)."""
import datetime

import numpy as np

import static_frame as sf
from mc.observe import norm


class RefLookupError(Exception):
    '''The reference says: this key addresses something the axis does not have.'''


class RefDuplicate(Exception):
    '''The key addresses the same position twice: the result would need duplicate labels.'''


def lk(x):
    '''normalised label key'''
    if isinstance(x, np.ndarray):
        return tuple(lk(v) for v in x.tolist())
    if isinstance(x, tuple):
        return tuple(lk(v) for v in x)
    n = norm(x)
    if n[0] in ('i', 'f') and n[1] != 'nan':
        return ('num', float(n[1]))
    return n


class RefAxis:
    def __init__(self, labels, kind='explicit'):
        self.labels = list(labels)
        self.n = len(self.labels)
        self.kind = kind      # 'explicit' | 'auto' | 'date'
        self.pos = {lk(l): i for i, l in enumerate(self.labels)}

    # ---- positional ------------------------------------------------------
    def iloc(self, key):
        n = self.n
        if key is None:
            return ('multi', list(range(n)))
        if isinstance(key, (int, np.integer)) and not isinstance(key, (bool, np.bool_)):
            k = int(key)
            if k < -n or k >= n:
                raise RefLookupError(k)
            return ('scalar', k % n)
        if isinstance(key, slice):
            return ('multi', list(range(n))[key])
        if isinstance(key, np.ndarray) and key.dtype == bool:
            if len(key) != n:
                raise RefLookupError('mask length')
            return ('multi', [i for i, b in enumerate(key.tolist()) if b])
        if isinstance(key, (list, np.ndarray)):
            out = []
            for k in (key.tolist() if isinstance(key, np.ndarray) else key):
                if k < -n or k >= n:
                    raise RefLookupError(k)
                out.append(k % n)
            return ('multi', out)
        raise TypeError(key)

    # ---- labels ----------------------------------------------------------
    def _one(self, label):
        k = lk(label)
        if k not in self.pos:
            raise RefLookupError(label)
        return self.pos[k]

    def loc(self, key):
        if key is None:
            return ('multi', list(range(self.n)))
        if isinstance(key, sf.ILoc):
            return self.iloc(key.key)
        if isinstance(key, slice):
            if key == slice(None):
                return ('multi', list(range(self.n)))
            start = None if key.start is None else self._one(key.start)
            stop = None if key.stop is None else self._one(key.stop) + 1
            return ('multi', list(range(self.n))[slice(start, stop, key.step)])
        if isinstance(key, np.ndarray) and key.dtype == bool:
            return self.iloc(key)
        if isinstance(key, sf.Series):
            if key.dtype == bool:
                truth = {lk(l): bool(v) for l, v in zip(key.index.values.tolist() if key.index.depth == 1 else list(key.index), key.values.tolist())}
                return ('multi', [i for i, l in enumerate(self.labels) if truth.get(lk(l), False)])
            return ('multi', [self._one(l) for l in key.values.tolist()])
        if isinstance(key, sf.Index):
            return ('multi', [self._one(l) for l in key.values.tolist()])
        if isinstance(key, (list, np.ndarray)):
            return ('multi', [self._one(l) for l in (key.tolist() if isinstance(key, np.ndarray) else key)])
        return ('scalar', self._one(key))


def check_unique(sel, tree_labels=None):
    '''A multi selection must not repeat a position (labels are unique); on a hierarchical axis of this version the
    selected tuples must also stay in tree order (an outer label may not re-appear after another one) -- such a result
    cannot be represented and is expected to be refused.'''
    kind, p = sel
    if kind == 'multi' and len(set(p)) != len(p):
        raise RefDuplicate(p)
    if kind == 'multi' and tree_labels is not None:
        seen = []
        for i in p:
            o = tree_labels[i][0]
            if seen and o != seen[-1] and o in seen:
                raise RefDuplicate(('non-tree', p))
            seen.append(o)
    return sel


# ---------------------------------------------------------------------------
# date axis: keys may be strings / date objects / datetime64 of day or coarser resolution

def _to_dt64(x):
    if isinstance(x, np.datetime64):
        return x
    if isinstance(x, (datetime.date, datetime.datetime)):
        return np.datetime64(x, 'D')
    if isinstance(x, str):
        return np.datetime64(x)
    raise TypeError(x)


class RefDateAxis(RefAxis):
    '''labels are datetime64[D], sorted or not; a coarser key selects every label inside that period.'''

    def __init__(self, labels):
        super().__init__(labels, 'date')
        self.days = [np.datetime64(l, 'D') for l in labels]

    def _matches(self, key):
        k = _to_dt64(key)
        unit = np.datetime_data(k.dtype)[0]
        if unit == 'D':
            return [i for i, d in enumerate(self.days) if d == k], True
        return [i for i, d in enumerate(self.days) if d.astype(k.dtype) == k], False

    def loc(self, key):
        if key is None or isinstance(key, (sf.ILoc, sf.Series, sf.Index)) or (isinstance(key, np.ndarray) and key.dtype == bool):
            return super().loc(key)
        if isinstance(key, slice):
            if key == slice(None):
                return ('multi', list(range(self.n)))
            start = stop = None
            if key.start is not None:
                m, exact = self._matches(key.start)
                if not m:
                    if exact:
                        raise RefLookupError(key.start)
                    return ('multi', [])
                start = m[0]
            if key.stop is not None:
                m, exact = self._matches(key.stop)
                if not m:
                    if exact:
                        raise RefLookupError(key.stop)
                    return ('multi', [])
                stop = m[-1] + 1
            return ('multi', list(range(self.n))[slice(start, stop, key.step)])
        if isinstance(key, np.ndarray):
            key = list(key)         # an array of dates (of any unit) is a list of labels: matches per key, in key order
        if isinstance(key, list):
            out = []
            for k in key:
                m, exact = self._matches(k)
                if not m and exact:
                    raise RefLookupError(k)
                out.extend(m)
            return ('multi', out)
        m, exact = self._matches(key)
        if exact:
            if not m:
                raise RefLookupError(key)
            return ('scalar', m[0])
        return ('multi', m)
