"""Explorer runtime shared by every property check.

A property module provides

    PROPERTY_ID, RULE, ASSUMPTIONS, MODE (text), cases(tier) -> iterator of
    picklable case objects in a canonical simplest-first order,
    run_case(case, ctx) -> None   (reports through ctx),
    universe(tier) -> dict (printed in the evidence file)

`run_case` executes ONE execution of the real implementation (one point of a
product universe, one event history replayed on fresh objects, one schedule ...)
and compares it with its oracle.  The runtime shards the enumeration over forked
workers (case index mod N), merges the measured counts, matches violations
against /verif/known_findings.json, re-executes each new violation twice from
its replay descriptor and writes the evidence file.
"""
import hashlib
import json
import multiprocessing as mp
import os
import sys
import time
import traceback

VERIF = os.path.dirname(os.path.dirname(os.path.abspath(__file__)))
REPO = os.environ.get('VERIF_REPO', '/repo')

MAX_VIOLATIONS_KEPT = 200     # per worker
MAX_REPORTED = 12             # VIOLATION lines printed


def h64(obj) -> int:
    '''Stable 64 bit hash of a canonical (repr-able) object.'''
    return int.from_bytes(hashlib.blake2b(repr(obj).encode('utf8', 'backslashreplace'), digest_size=8).digest(), 'big')


class Ctx:
    '''Per-worker collector.'''

    def __init__(self, sample_every=1):
        self.states = set()
        self.nontrivial = set()
        self.outcomes = {}
        self.transitions = 0
        self.evaluations = 0
        self.violations = []
        self.violation_count = 0
        self.samples = []
        self.extra = {}
        self._case = None
        self._index = None
        self._seen_keys = {}

    # -- measured counters -------------------------------------------------
    def state(self, canon):
        self.states.add(h64(canon))

    def transition(self, n=1):
        self.transitions += n

    def nontriv(self, canon):
        self.nontrivial.add(h64(canon))

    def outcome(self, token):
        token = str(token)
        self.outcomes[token] = self.outcomes.get(token, 0) + 1

    def count(self, name, n=1):
        self.extra[name] = self.extra.get(name, 0) + n

    def sample(self, obj, limit=4):
        if len(self.samples) < limit:
            self.samples.append(obj)

    # -- violations -------------------------------------------------------
    def violation(self, key, /, **info):
        '''key: structured discriminator (call site / input class) used for
        known-finding matching; info: observed / expected / detail.'''
        self.violation_count += 1
        n = self._seen_keys.get(key, 0)
        self._seen_keys[key] = n + 1
        if n >= 3 or len(self.violations) >= MAX_VIOLATIONS_KEPT:
            return
        self.violations.append({
            'key': key,
            'index': self._index,
            'case': safe_repr(self._case),
            'info': {k: safe_repr(v) for k, v in info.items()},
        })


def safe_repr(x, limit=1500):
    try:
        r = x if isinstance(x, str) else repr(x)
    except Exception as e:  # pragma: no cover
        r = f'<unreprable {type(x).__name__}: {e}>'
    if len(r) > limit:
        r = r[:limit] + '...'
    return r


class HarnessError(Exception):
    pass


def execute(mod, case, ctx, index=None):
    ctx._case = case
    ctx._index = index
    ctx.evaluations += 1
    try:
        mod.run_case(case, ctx)
    except HarnessError:
        raise
    except Exception as e:
        tb = traceback.format_exc(limit=12)
        site = ''
        for line in reversed(tb.splitlines()):
            line = line.strip()
            if line.startswith('File ') and 'static_frame' in line:
                site = line.split('static_frame')[-1].split(',')[0].strip('/"')
                break
        ctx.violation(f'unexpected-exception|{type(e).__name__}|{site}', traceback=tb[-1400:])


def _worker(args):
    mod_name, tier, shard, nshards, rot = args
    import importlib
    mod = importlib.import_module(mod_name)
    ctx = Ctx()
    t0 = time.time()
    i = -1
    for i, case in enumerate(mod.cases(tier)):
        if (i + rot) % nshards != shard:
            continue
        execute(mod, case, ctx, i)
    total = i + 1
    return {
        'states': ctx.states, 'nontrivial': ctx.nontrivial, 'outcomes': ctx.outcomes,
        'transitions': ctx.transitions, 'evaluations': ctx.evaluations,
        'violations': ctx.violations, 'violation_count': ctx.violation_count,
        'samples': ctx.samples, 'extra': ctx.extra, 'total_cases': total,
        'wall': time.time() - t0,
    }


def load_known():
    path = os.path.join(VERIF, 'known_findings.json')
    if not os.path.exists(path):
        return []
    return json.load(open(path))['findings']


def case_at(mod, tier, index):
    for i, case in enumerate(mod.cases(tier)):
        if i == index:
            return case
    raise HarnessError(f'case index {index} not in enumeration')


def replay_once(mod, tier, index):
    case = case_at(mod, tier, index)
    ctx = Ctx()
    execute(mod, case, ctx, index)
    return case, ctx


def write_replay(pid, tier, v):
    d = os.path.join(VERIF, 'replays', pid)
    os.makedirs(d, exist_ok=True)
    digest = hashlib.blake2b((v['key'] + v['case']).encode(), digest_size=6).hexdigest()
    path = os.path.join(d, digest + '.json')
    with open(path, 'w') as f:
        json.dump({'property': pid, 'tier': tier, 'index': v['index'], 'key': v['key'],
                   'case': v['case'], 'info': v['info']}, f, indent=1)
    return path


def run_check(mod, tier, seed, workers=None):
    pid = mod.PROPERTY_ID
    t0 = time.time()
    n = workers or int(os.environ.get('VERIF_WORKERS', '0')) or min(16, os.cpu_count() or 1)
    rot = seed % n
    # forked, non-daemonic workers (C18 starts real process pools from inside a worker)
    from concurrent.futures import ProcessPoolExecutor
    with ProcessPoolExecutor(max_workers=n, mp_context=mp.get_context('fork')) as pool:
        parts = list(pool.map(_worker, [(mod.__name__, tier, s, n, rot) for s in range(n)]))
    states, nontriv, outcomes = set(), set(), {}
    transitions = evaluations = vcount = 0
    violations, samples, extra = [], [], {}
    totals = set()
    for p in parts:
        states |= p['states']
        nontriv |= p['nontrivial']
        for k, c in p['outcomes'].items():
            outcomes[k] = outcomes.get(k, 0) + c
        transitions += p['transitions']
        evaluations += p['evaluations']
        vcount += p['violation_count']
        violations.extend(p['violations'])
        samples.extend(p['samples'][:1])
        for k, c in p['extra'].items():
            extra[k] = (extra.get(k, 0) + c) if isinstance(c, (int, float)) and not isinstance(c, bool) else c
        totals.add(p['total_cases'])
    if len(totals) != 1:
        raise HarnessError(f'workers disagree on enumeration size: {totals}')
    total_cases = totals.pop()
    if evaluations != total_cases:
        raise HarnessError(f'shards do not cover the universe: {evaluations} != {total_cases}')

    # ---- violations: known findings, replay twice, report -----------------
    known = [k for k in load_known() if k['property'] == pid]
    known_open = {k['key']: k for k in known if k.get('status') == 'open'}
    violations.sort(key=lambda v: (v['index'] if v['index'] is not None else -1, v['key']))
    printed_known = set()
    new = []
    for v in violations:
        if v['key'] in known_open:
            if v['key'] not in printed_known:
                printed_known.add(v['key'])
                print(f"KNOWN-FINDING: property={pid} {known_open[v['key']]['what']} [key={v['key']}]")
            continue
        new.append(v)
    reported = 0
    seen_new_keys = set()
    exit_code = 0
    for v in new:
        if v['key'] in seen_new_keys:
            continue
        seen_new_keys.add(v['key'])
        if reported >= MAX_REPORTED:
            continue
        # reproduce twice, in this (parent) process, before believing it
        keys = []
        for _ in range(2):
            _, c2 = replay_once(mod, tier, v['index'])
            keys.append(sorted({x['key'] for x in c2.violations}))
        if keys[0] != keys[1] or v['key'] not in keys[0]:
            print(f"HARNESS-ERROR property={pid} non-reproducing violation key={v['key']} index={v['index']} replays={keys}")
            exit_code = 2
            continue
        path = write_replay(pid, tier, v)
        print(f"VIOLATION property={pid} replay={path} key={v['key']}")
        for k, val in v['info'].items():
            print(f"    {k}: {val[:600]}")
        print(f"    case: {v['case'][:600]}")
        reported += 1
        exit_code = max(exit_code, 1)
    n_new_keys = len(seen_new_keys)
    if os.environ.get('VERIF_KEYS'):
        for k in sorted(seen_new_keys):
            print('NEWKEY', k)

    wall = time.time() - t0
    uni = mod.universe(tier) if hasattr(mod, 'universe') else {}
    exhaustive = getattr(mod, 'EXHAUSTIVE', True)
    ev = {
        'property_id': pid,
        'tier': tier,
        'seed': seed,
        'level': 'model_checking',
        'coverage': {
            'states': len(states),
            'transitions': transitions,
            'traces_validated_against_impl': evaluations,
            'evaluations': evaluations,
            'distinct_nontrivial': len(nontriv),
            'rule': mod.RULE,
            'samples': samples[:6] or ['(no sample recorded)'],
            'exhaustive': bool(exhaustive) and not any(k.startswith(('deviation-bounded', 'configurations-that-reached', 'cap-reached')) and v for k, v in extra.items()),
            'mode': getattr(mod, 'MODE', ''),
            'universe': uni,
            'distinct_outcomes': len(outcomes),
            'outcome_histogram': dict(sorted(outcomes.items(), key=lambda kv: -kv[1])[:40]),
            'known_finding_keys_seen': sorted(printed_known),
            'new_violation_keys': n_new_keys,
            'workers': n,
            'repo': REPO,
            **{k: v for k, v in extra.items()},
        },
        'assumptions': list(mod.ASSUMPTIONS),
        'wall_s': round(wall, 2),
        'violations': n_new_keys,
    }
    os.makedirs(os.path.join(VERIF, 'evidence'), exist_ok=True)
    with open(os.path.join(VERIF, 'evidence', pid + '.json'), 'w') as f:
        json.dump(ev, f, indent=1, default=str)
    print(f"{pid} tier={tier} seed={seed} cases={evaluations} transitions={transitions} states={len(states)} "
          f"nontrivial={len(nontriv)} outcomes={len(outcomes)} known={len(printed_known)} new_violations={n_new_keys} wall={wall:.1f}s")
    return exit_code


def run_replay(mod, path):
    rec = json.load(open(path))
    tier, index = rec['tier'], rec['index']
    outs = []
    for _ in range(2):
        case, ctx = replay_once(mod, tier, index)
        if safe_repr(case) != rec['case']:
            print(f'HARNESS-ERROR replay descriptor does not match enumeration: {safe_repr(case)[:200]} != {rec["case"][:200]}')
            return 2
        outs.append(sorted({v['key'] for v in ctx.violations}))
    if outs[0] != outs[1]:
        print(f'HARNESS-ERROR replay not deterministic: {outs}')
        return 2
    if rec['key'] in outs[0]:
        print(f"VIOLATION property={rec['property']} replay={path} key={rec['key']}")
        for v in ctx.violations:
            if v['key'] == rec['key']:
                for k, val in v['info'].items():
                    print(f'    {k}: {val}')
                break
        return 1
    print(f"replay {path}: no violation (keys now: {outs[0]})")
    return 0
