"""C20 Reshaping and relational operations follow their relational definitions.

Mode P.  (A) set_index / set_index_hierarchy / unset_index / relabel_shift_in /
relabel_shift_out: every key assignment, per-row cell dictionaries must be
unchanged.  (B) pivot_stack -> pivot_unstack and back.  (C) pivot against a
dict-of-rows group/aggregate reference for every assignment of index / column
field values, 1-2 fields each, several functions and fill values.  (D) joins
against a nested-loop reference for every key assignment of both sides (all
cardinalities), four join kinds, keys from columns or from the index, templates,
two layouts.
"""
import itertools

import numpy as np

import static_frame as sf
from mc import universe as U
from mc.observe import columns_of, is_missing, norm

PROPERTY_ID = 'C20'
MODE = 'P (product enumeration of key assignments x field choices x functions / join kinds x layouts; relational reference)'
RULE = ('case = (family, parameters, shard); every assignment of key values over a small alphabet to the rows is executed and compared with the '
        'pure-Python relational reference (dict of rows, nested-loop join, group/aggregate); non-trivial = assignment with a repeated key '
        '(aggregation / many-to-many) or an unmatched key; states = distinct input frames; transitions = operations compared')
ASSUMPTIONS = [
    'output row order of joins and pivots is not fixed by the statement: rows are compared as a mapping (pivot) or multiset (join)',
    'numeric cells compare with == across int/float (a filled column is promoted); exact dtypes are C07',
    'pivot column labels are read as (column-field values..., data field, function name) in the documented order',
]


def arr(vals, dtype):
    if dtype == 'object':
        a = np.empty(len(vals), dtype=object)
        for i, v in enumerate(vals):
            a[i] = v
    else:
        a = np.array(list(vals), dtype=dtype) if len(vals) else np.array([], dtype=dtype)
    a.flags.writeable = False
    return a


def eqv(a, b):
    ma, mb = is_missing(a), is_missing(b)
    if ma or mb:
        return ma and mb
    if isinstance(a, (str, np.str_)) != isinstance(b, (str, np.str_)):
        return False
    try:
        return bool(a == b)
    except Exception:
        return False


def key_of(v):
    n = norm(v)
    if n[0] in ('i', 'f') and n[1] != 'nan':
        return ('num', float(n[1]))
    if n[0] == 't':
        return tuple(key_of(x) for x in v)
    return n


def lab(x):
    '''index label (possibly tuple from IndexHierarchy) -> hashable normalised key'''
    if isinstance(x, (tuple, np.ndarray, list)):
        return tuple(key_of(v) for v in x)
    return (key_of(x),)


def labels_of(ix):
    return [lab(x) for x in ix]


def mkframe(cols, names, index, li, name='fn'):
    '''cols: list of arrays; li: 0 all 1-D, 1 coarsest consolidation, 2 every column a (n,1) block'''
    n = len(index)
    lays = list(U.layouts(cols))
    if li == 0:
        sig, blocks = lays[0]
    elif li == 1:
        sig, blocks = lays[-1]
    else:
        blocks = [U.frozen(c.reshape(n, 1)) for c in cols]
        sig = ('all2x1',)
    return U.frame_from_blocks(blocks, n, index=index, columns=names, name=name), sig


def row_dicts(f):
    cols = columns_of(f)
    names = [n[0] if len(n) == 1 else n for n in labels_of(f.columns)]
    return [{names[j]: cols[j][i] for j in range(len(names))} for i in range(f.shape[0])]


def same_row(a, b):
    return a.keys() == b.keys() and all(eqv(a[k], b[k]) for k in a)


def scope(tier):
    if tier == 'quick':
        return dict(n_move=3, n_pivot=4, n_join=3)
    return dict(n_move=4, n_pivot=5, n_join=4)


def cases(tier):
    sc = scope(tier)
    for n in range(1, sc['n_move'] + 1):
        for li in range(3):
            yield ('moves', n, li)
    for li in range(2):
        for pat in range(len(STACK_PATTERNS)):
            yield ('stack', li, pat)
    for n in range(1, sc['n_pivot'] + 1):
        for cfg in range(len(PIVOT_CFG)):
            for li in range(2):
                nsh = max(1, (4 ** n) // 64)
                for sh in range(nsh):
                    yield ('pivot', n, cfg, li, (sh, nsh))
    # the same pivots with nanosecond datetime64 index-field values (labels that a conversion to native Python objects would turn into integers)
    for n in range(1, 4):
        for cfg in range(len(PIVOT_CFG)):
            yield ('pivot', n, cfg, 0, (0, 1), 'datens')
    for nl in range(1, sc['n_join'] + 1):
        for nr in range(1, sc['n_join'] + 1):
            for route in ('columns', 'index', 'two-columns', 'columns-shared-labels', 'index-depth-list'):
                for li in range(2):
                    yield ('join', nl, nr, route, li)


def universe(tier):
    return dict(scope(tier), key_alphabet=[1, 2, 3], pivot_configs=[c[0] for c in PIVOT_CFG], join_kinds=['inner', 'left', 'right', 'outer'])


# ---------------------------------------------------------------- (A) moves
def run_moves(case, ctx):
    _, n, li = case
    index = ['r%d' % i for i in range(n)]
    # key column k1 all permutations-with-distinct values for set_index (must be unique), k2 over {1,2} with repeats for hierarchy
    for k1 in itertools.permutations((3, 1, 2, 5)[:max(n, 1)], n):
        for k2 in itertools.product(('u', 'v'), repeat=n):
            cols = [arr(k1, 'int64'), arr(k2, '<U1'), arr([i + 0.5 for i in range(n)], 'float64'), arr([10 * i for i in range(n)], 'int64')]
            names = ['k1', 'k2', 'x', 'y']
            f, sig = mkframe(cols, names, index, li)
            base = row_dicts(f)
            ctx.state(('moves', k1, k2, sig))
            info = dict(k1=k1, k2=k2, layout=sig)

            def check(tag, func, exp_rows_fn):
                ctx.transition()
                if n > 1:
                    ctx.nontriv(('moves', tag, k1, k2))
                try:
                    res = func()
                except Exception as e:
                    ctx.violation(f'{tag}|raises|{type(e).__name__}', **info, error=repr(e))
                    return None
                exp = exp_rows_fn()
                got = row_dicts(res)
                gl = labels_of(res.index)
                if exp is not None:
                    exp_labels, exp_rows = exp
                    if (exp_labels is not None and gl != exp_labels) or len(got) != len(exp_rows) or not all(same_row(a, b) for a, b in zip(got, exp_rows)):
                        ctx.violation(f'{tag}|rows', **info, got=(gl, [{k: norm(v) for k, v in r.items()} for r in got]),
                                      expected=(exp_labels, [{k: norm(v) for k, v in r.items()} for r in exp_rows]))
                return res

            def without(rows, *drop):
                d = [key_of(x) for x in drop]
                return [{k: v for k, v in r.items() if k not in d} for r in rows]
            # set_index keep / drop
            check('set_index', lambda: f.set_index('k1'), lambda: ([(key_of(v),) for v in k1], base))
            r = check('set_index_drop', lambda: f.set_index('k1', drop=True), lambda: ([(key_of(v),) for v in k1], without(base, 'k1')))
            if r is not None:
                # and back: the index returns as the first column, rows keep their cells
                check('set_index_drop.unset_index', lambda: r.unset_index(), lambda: (None, base))
            check('unset_index', lambda: f.unset_index(names=('idx',)), lambda: (None, [{key_of('idx'): index[i], **base[i]} for i in range(n)]))
            # hierarchy from (k2, k1): unique because k1 is; reorder_for_hierarchy makes any order acceptable
            tup = [(key_of(k2[i]), key_of(k1[i])) for i in range(n)]
            r = check('set_index_hierarchy', lambda: f.set_index_hierarchy(['k2', 'k1'], drop=True, reorder_for_hierarchy=True), lambda: None)
            if r is not None:
                gl = labels_of(r.index)
                got = dict(zip(gl, row_dicts(r)))
                exp = dict(zip(tup, without(base, 'k1', 'k2')))
                if sorted(map(repr, gl)) != sorted(map(repr, tup)) or not all(same_row(got[t], exp[t]) for t in tup):
                    ctx.violation('set_index_hierarchy|rows', **info, got=gl, expected=tup)
                else:
                    r2 = check('set_index_hierarchy.unset_index', lambda: r.unset_index(), lambda: None)
                    if r2 is not None:
                        got2 = {(key_of(d[key_of('k2')]), key_of(d[key_of('k1')])): d for d in row_dicts(r2)}
                        if set(got2) != set(tup) or not all(same_row(got2[t], base[i]) for i, t in enumerate(tup)):
                            ctx.violation('set_index_hierarchy.unset_index|rows', **info, got=list(got2), expected=tup)
            # the same with drop=False: every row keeps all its cells, including the key columns, under its own (re-ordered) label
            r = check('set_index_hierarchy(keep)', lambda: f.set_index_hierarchy(['k2', 'k1'], drop=False, reorder_for_hierarchy=True), lambda: None)
            if r is not None:
                got = dict(zip(labels_of(r.index), row_dicts(r)))
                exp = dict(zip(tup, base))
                if set(got) != set(tup) or not all(same_row(got[t], exp[t]) for t in tup):
                    ctx.violation('set_index_hierarchy(keep)|rows', **info, got=sorted(map(repr, got.items())), expected=sorted(map(repr, exp.items())))
            # shift a column into the index (inner level) and out again
            r = check('relabel_shift_in', lambda: f.relabel_shift_in('k1'), lambda: ([(key_of(index[i]), key_of(k1[i])) for i in range(n)], without(base, 'k1')))
            if r is not None:
                check('relabel_shift_in.shift_out', lambda: r.relabel_shift_out(1), lambda: ([(key_of(x),) for x in index], base))
            r = check('relabel_shift_in2', lambda: f.relabel_shift_in(['k2', 'k1']), lambda: ([(key_of(index[i]), key_of(k2[i]), key_of(k1[i])) for i in range(n)], without(base, 'k1', 'k2')))
            if r is not None:
                check('relabel_shift_in2.shift_out', lambda: r.relabel_shift_out([1, 2]), lambda: ([(key_of(x),) for x in index], base))
                # the depths named in another order: every column still carries the labels of the depth it is named after
                check('relabel_shift_in2.shift_out[2,1]', lambda: r.relabel_shift_out([2, 1]), lambda: ([(key_of(x),) for x in index], base))
                check('relabel_shift_in2.shift_out[2]-then-[1]', lambda: r.relabel_shift_out([2]).relabel_shift_out([1]), lambda: ([(key_of(x),) for x in index], base))
                # and on the other axis: shift index depths of the transposed frame out of its columns
                rt = r.transpose()
                check('relabel_shift_in2.T.shift_out[2,1](axis=1)', lambda: rt.relabel_shift_out([2, 1], axis=1).transpose(), lambda: ([(key_of(x),) for x in index], base))
            # the operand is untouched
            if not all(same_row(a, b) for a, b in zip(row_dicts(f), base)) or labels_of(f.index) != [(key_of(x),) for x in index]:
                ctx.violation('moves|operand-changed', **info)
    # the same moves from a source whose HIERARCHICAL labels were built lazily and never read (from_labels / from_product): several shifts are taken from the one
    # source (each result checked), with the axis realised beforehand or not, and the source is as it was afterwards
    hier_builders = [('from_labels', lambda: sf.IndexHierarchy.from_labels([('g%d' % (i // 2), 'r%d' % i) for i in range(n)], name=('o', 'i')))]
    if n % 2 == 0 and n:
        hier_builders.append(('from_product', lambda: sf.IndexHierarchy.from_product(('g0', 'g1'), tuple('r%d' % i for i in range(n // 2)), name=('o', 'i'))))
    for hname, hb in hier_builders:
        for realised in (False, True):
            for axis in (0, 1):
                k1 = tuple((3, 1, 2, 5, 4, 0)[:n])
                k2 = tuple('uv'[i % 2] for i in range(n))
                cols = [arr(k1, 'int64'), arr(k2, '<U1'), arr([i + 0.5 for i in range(n)], 'float64')]
                f, sig = mkframe(cols, ['k1', 'k2', 'x'], hb(), li)
                hl = [tuple(t) for t in hb()]
                if axis == 1:
                    f = f.transpose()
                if realised:
                    (f.index if axis == 0 else f.columns).values
                ctx.state(('moves-hier', hname, realised, axis, n, sig))
                ctx.nontriv(('moves-hier', hname, realised, axis, n, sig))
                info = dict(index_built_by=hname, realised_first=realised, axis=axis, layout=sig)
                colv = {'k1': k1, 'k2': k2, 'x': tuple(i + 0.5 for i in range(n))}
                try:
                    for key in ('k2', 'k1', ['k1', 'x'], 'k2'):
                        ctx.transition()
                        keys = key if isinstance(key, list) else [key]
                        g = f.relabel_shift_in(key, axis=axis)
                        gt = g if axis == 0 else g.transpose()
                        exp_labels = [tuple(key_of(x) for x in hl[i]) + tuple(key_of(colv[k][i]) for k in keys) for i in range(n)]
                        rest = [k for k in ('k1', 'k2', 'x') if k not in keys]
                        ok = labels_of(gt.index) == exp_labels and [c for c in gt.columns.values.tolist()] == rest and all(
                            [norm(v) for v in gt[c].values.tolist()] == [norm(v) for v in colv[c]] for c in rest)
                        if not ok:
                            ctx.violation('relabel_shift_in|hierarchical-source|rows', **info, key=key, got=(labels_of(gt.index), gt.columns.values.tolist()), expected=(exp_labels, rest))
                            break
                    ft = f if axis == 0 else f.transpose()
                    if ft.index.depth != 2 or [tuple(t) for t in ft.index] != hl or ft.index.values.shape != (n, 2) or ft.unset_index().shape != (n, 5):
                        ctx.violation('relabel_shift_in|hierarchical-source|operand-changed', **info, depth=ft.index.depth, labels=[tuple(t) for t in ft.index])
                except Exception as e:
                    ctx.violation(f'relabel_shift_in|hierarchical-source|raises|{type(e).__name__}', **info, error=repr(e))
    ctx.outcome('moves')
    ctx.sample({'family': 'moves', 'n': n, 'layout': li}, limit=1)


# ---------------------------------------------------------------- (B) stack / unstack
def cells(f):
    '''{(row label, column label): value} with tuple labels flattened'''
    cols = columns_of(f)
    cl = labels_of(f.columns)
    rl = labels_of(f.index)
    return {(rl[i], cl[j]): cols[j][i] for i in range(len(rl)) for j in range(len(cl))}


def flat(t):
    return t if isinstance(t, tuple) and t and isinstance(t[0], tuple) else ((t,) if not (isinstance(t, tuple) and t and isinstance(t[0], tuple)) else t)


STACK_PATTERNS = [('float64', 'float64', 'float64'), ('<U2', '<U6', '<U3'), ('float32', 'float64', 'float32'), ('int8', 'int64', 'int8'), ('int64', 'int64', 'float64')]


def stack_value(dt, j, i):
    '''a value that needs the full width of its dtype'''
    if dt == 'float64':
        return 0.1 * (100 * j + i + 1)
    if dt == 'float32':
        return 100 * j + i + 0.5
    if dt == 'int8':
        return 10 * j + i
    if dt == 'int64':
        return 2 ** 60 + 100 * j + i + 1      # not representable as a float64
    w = int(dt[2:])
    return ('%d%d' % (j, i) + 'wxyz')[:w]


def run_stack(case, ctx):
    _, li, pat = case
    pattern = STACK_PATTERNS[pat]
    # every non-empty subset (in tree order) of a 2x2 row hierarchy x 2-level columns
    row_pool = [('a', 1), ('a', 2), ('b', 1), ('b', 2)]
    col_pool = [('x', 'p'), ('x', 'q'), ('y', 'p')]
    for rmask in itertools.product((0, 1), repeat=4):
        rows = [t for t, m in zip(row_pool, rmask) if m]
        if not rows:
            continue
        for cmask in itertools.product((0, 1), repeat=3):
            colsl = [t for t, m in zip(col_pool, cmask) if m]
            if not colsl:
                continue
            n = len(rows)
            arrays = [arr([stack_value(pattern[col_pool.index(t)], j, i) for i in range(n)], pattern[col_pool.index(t)]) for j, t in enumerate(colsl)]
            f, sig = mkframe(arrays, sf.IndexHierarchy.from_labels(colsl), sf.IndexHierarchy.from_labels(rows), li)
            ctx.state(('stack', tuple(rows), tuple(colsl), sig, pattern))
            base = cells(f)
            info = dict(rows=rows, columns=colsl, layout=sig, dtypes=pattern)
            for first, second in (('pivot_stack', 'pivot_unstack'), ('pivot_unstack', 'pivot_stack')):
                ctx.transition(2)
                ctx.nontriv(('stack', first, tuple(rows), tuple(colsl)))
                try:
                    mid = getattr(f, first)()
                    back = getattr(mid, second)()
                except Exception as e:
                    ctx.violation(f'{first}.{second}|raises|{type(e).__name__}', **info, error=repr(e))
                    continue
                # every original cell is present in the intermediate (keyed by the multiset of its label parts) and after the round trip
                def keyset(c):
                    out = {}
                    for (r, cc), v in c.items():
                        parts = tuple(sorted(map(repr, r + cc)))
                        out.setdefault(parts, []).append(v)
                    return out
                bk = keyset(base)
                for name, fr in (('mid', mid), ('back', back)):
                    gk = keyset(cells(fr))
                    for parts, vs in bk.items():
                        g = [v for v in gk.get(parts, []) if not is_missing(v)]
                        if len(g) != 1 or not eqv(g[0], vs[0]):
                            ctx.violation(f'{first}.{second}|cell-lost-or-changed|{name}', **info, cell=parts, got=[norm(x) for x in gk.get(parts, [])], expected=norm(vs[0]))
                            break
                    extra = [p for p, vs in gk.items() if p not in bk and any(not is_missing(v) for v in vs)]
                    if extra:
                        ctx.violation(f'{first}.{second}|non-fill-extra-cell|{name}', **info, extra=extra[:3])
                # with an explicit fill value that needs a wider dtype of the column's own kind: every cell without a source holds exactly that value
                fill = {'float64': -0.1, '<U2': 'missing-value', 'float32': 0.1, 'int8': 10 ** 9, 'int64': -(2 ** 59) - 3}[pattern[0]]
                try:
                    midf = getattr(f, first)(fill_value=fill)
                    mc = cells(midf)
                    srcs = {tuple(sorted(map(repr, r + cc))): v for (r, cc), v in base.items()}
                    for (r, cc), v in mc.items():
                        parts = tuple(sorted(map(repr, r + cc)))
                        want = srcs.get(parts, fill)
                        if not eqv(v, want):
                            ctx.violation(f'{first}(fill_value)|cell', **info, fill=repr(fill), cell=parts, got=norm(v), expected=norm(want))
                            break
                except Exception as e:
                    ctx.violation(f'{first}(fill_value)|raises|{type(e).__name__}', **info, fill=repr(fill), error=repr(e))
                bc = cells(back)
                if not all(k in bc and eqv(bc[k], v) for k, v in base.items()):
                    ctx.violation(f'{first}.{second}|round-trip-labels', **info, got=sorted(map(repr, bc))[:8], expected=sorted(map(repr, base))[:8])
    ctx.outcome('stack')
    ctx.sample({'family': 'stack', 'layout': li, 'dtypes': pattern}, limit=1)


# ---------------------------------------------------------------- (C) pivot
def f_range(x):
    v = np.asarray(x)
    return v.max() - v.min()


def f_first(x):
    return x[0]


PIVOT_CFG = [
    # name, index_fields, columns_fields, data_fields, func, fill
    ('i|c|d|sum', ('i',), ('c',), ('d',), None, np.nan),
    ('i|c|d|min|fill-1', ('i',), ('c',), ('d',), np.min, -1),
    ('i|c|d|custom|fillstr', ('i',), ('c',), ('d',), f_range, '?'),
    ('i|c|d,e|max', ('i',), ('c',), ('d', 'e'), np.max, np.nan),
    ('i|c|d|map|fill0', ('i',), ('c',), ('d',), {'mn': np.min, 'mx': np.max}, 0),
    ('i|-|d|sum', ('i',), (), ('d',), None, np.nan),
    ('i,c|-|d|sum', ('i', 'c'), (), ('d',), None, np.nan),
    ('i|c,j|d|sum|fill-9', ('i',), ('c', 'j'), ('d',), None, -9),
    ('i,j|c|e|min', ('i', 'j'), ('c',), ('e',), np.min, np.nan),
    # a function map over SEVERAL data fields: one column per (column value, data field, function)
    ('i|c|d,e|map', ('i',), ('c',), ('d', 'e'), {'mn': np.min, 'mx': np.max}, np.nan),
    ('i|-|d,e|map', ('i',), (), ('d', 'e'), {'mn': np.min, 'mx': np.max}, np.nan),
    # a text data field with a text fill value wider than the column's own width
    ('i|c|s|first|fill-wide-text', ('i',), ('c',), ('s',), f_first, 'missing'),
]


def run_pivot(case, ctx):
    _, n, cfgi, li, (sh, nsh) = case[:5]
    keykind = case[5] if len(case) > 5 else 'int'
    name, ifs, cfs, dfs, func, fill = PIVOT_CFG[cfgi]
    name_base = name
    if keykind == 'datens':
        name += '|datetime64[ns]-index-field'
    IV = {1: 1, 2: 2} if keykind == 'int' else {1: np.datetime64('2020-01-01T00:00:00.000000001', 'ns'), 2: np.datetime64('2020-01-01T00:00:00.000000002', 'ns')}
    index = ['r%d' % i for i in range(n)]
    # i over {1,2}, c over {'x','y'} for every row -> 4^n assignments; j is a second key column derived deterministically
    for vi, assign in enumerate(itertools.product(((1, 'x'), (1, 'y'), (2, 'x'), (2, 'y')), repeat=n)):
        if vi % nsh != sh:
            continue
        iv = [IV[a[0]] for a in assign]
        cv = [a[1] for a in assign]
        jv = [(i * 7) % 2 + 10 for i in range(n)]
        dv = [3 + 2 * i for i in range(n)]
        ev = [1.5 * (i + 1) for i in range(n)]
        sv = ['t%d' % i for i in range(n)]
        colmap = {'i': (iv, 'int64' if keykind == 'int' else 'datetime64[ns]'), 'c': (cv, '<U1'), 'j': (jv, 'int64'), 'd': (dv, 'int64'), 'e': (ev, 'float64'), 's': (sv, '<U2')}
        names = ['i', 'j', 'c', 'd', 'e'] + (['s'] if 's' in dfs else [])
        f, sig = mkframe([arr(*colmap[k]) for k in names], names, index, li)
        ctx.state(('pivot', keykind, tuple(assign), sig))
        ctx.transition()
        info = dict(config=name, assignment=assign, layout=sig)
        rows = [{k: colmap[k][0][i] for k in names} for i in range(n)]
        ikeys = [tuple(r[k] for k in ifs) for r in rows]
        ckeys = [tuple(r[k] for k in cfs) for r in rows]
        if len(set(zip(ikeys, ckeys))) < n or len(set(ikeys)) > 1:
            ctx.nontriv(('pivot', name, tuple(assign)))
        funcs = func if isinstance(func, dict) else {None: func}
        exp = {}
        for ik in set(ikeys):
            for ck in set(ckeys):
                members = [r for r, a, b in zip(rows, ikeys, ckeys) if a == ik and b == ck]
                for dfield in dfs:
                    for fname, fn in funcs.items():
                        col = tuple(ck) + ((dfield,) if len(dfs) > 1 else ()) + ((fname,) if isinstance(func, dict) else ())
                        if not cfs and len(dfs) == 1 and not isinstance(func, dict):
                            col = (dfield,)
                        if members:
                            vals = np.array([m[dfield] for m in members])
                            v = (fn or np.sum)(vals)
                        else:
                            v = fill
                        exp[(tuple(key_of(x) for x in ik), tuple(key_of(x) for x in col))] = v
        try:
            res = f.pivot(ifs if len(ifs) > 1 else ifs[0], cfs if len(cfs) != 1 else cfs[0], dfs if len(dfs) > 1 else dfs[0],
                          func=func, fill_value=fill)
        except Exception as e:
            # classify: with several index fields, do the index keys in order of first appearance form a tree?
            seen_outer, tree = [], True
            for k in dict.fromkeys(ikeys):
                if len(k) > 1:
                    if seen_outer and k[0] != seen_outer[-1] and k[0] in seen_outer:
                        tree = False
                    seen_outer.append(k[0])
            cls = '' if tree else '|index-field-values-first-appear-in-non-tree-order'
            ctx.violation(f'pivot|raises|{type(e).__name__}|{name_base if cls else name}{cls}', **info, error=repr(e))
            continue
        got = {}
        for (r, c), v in cells(res).items():
            got[(r, c)] = v
        if set(got) != set(exp):
            ctx.violation(f'pivot|labels|{name}', **info, got=sorted(map(repr, got)), expected=sorted(map(repr, exp)))
            continue
        bad = [k for k in exp if not eqv(got[k], exp[k])]
        if bad:
            k = bad[0]
            cls = ''
            if func is f_range:
                # is every wrong cell a single-row group whose value was copied without calling the function?
                groups = {}
                for r, a, b in zip(rows, ikeys, ckeys):
                    groups.setdefault((tuple(key_of(x) for x in a), tuple(key_of(x) for x in b)), []).append(r[dfs[0]])
                if all(len(groups.get(c, ())) == 1 and eqv(got[c], groups[c][0]) for c in bad):
                    cls = '|custom-function-not-applied-to-single-row-groups'
            ctx.violation(f'pivot|cell|{name_base if cls else name}{cls}', **info, cell=k, got=norm(got[k]), expected=norm(exp[k]))
        if len(set(labels_of(res.index))) != len(res.index):
            ctx.violation(f'pivot|duplicate-rows|{name}', **info)
    ctx.outcome('pivot:' + name)
    ctx.sample({'family': 'pivot', 'n': n, 'config': name, 'layout': li}, limit=1)


# ---------------------------------------------------------------- (D) join
def ref_join(kind, lrows, rrows, lkeys, rkeys):
    '''multiset of (left row index | None, right row index | None)'''
    out = []
    matched_r = set()
    for i, lk in enumerate(lkeys):
        hit = False
        for j, rk in enumerate(rkeys):
            if lk == rk:
                out.append((i, j))
                matched_r.add(j)
                hit = True
        if not hit and kind in ('left', 'outer'):
            out.append((i, None))
    if kind in ('right', 'outer'):
        for j in range(len(rkeys)):
            if j not in matched_r:
                out.append((None, j))
    return out


def tree_ok(tuples):
    from mc.props.c02 import tree_ordered
    return len(set(tuples)) == len(tuples) and tree_ordered(list(tuples))


def run_join(case, ctx):
    _, nl, nr, route, li = case
    alpha = (1, 2, 3)
    lidx = ['l%d' % i for i in range(nl)]
    ridx = ['r%d' % i for i in range(nr)]
    if route == 'columns-shared-labels':
        # both frames carry the same row labels (as two frames with default indices do): a label says nothing about which side a row is from
        ridx = ['l%d' % i for i in range(nr)]
    for lk in itertools.product(alpha, repeat=nl):
        for rk in itertools.product(alpha, repeat=nr):
            if route == 'index' and (len(set(lk)) < nl or len(set(rk)) < nr):
                continue  # keys taken from the index must be unique labels
            lk2 = ['abc'[(i + k) % 2] for i, k in enumerate(lk)]
            rk2 = ['abc'[(j * k) % 2] for j, k in enumerate(rk)]
            lv = [0.5 + i for i in range(nl)]
            rv = [100 + j for j in range(nr)]
            if route == 'index-depth-list':
                # the left key is taken from two depths of a hierarchical index, named inner depth first; the right key from two columns in that order
                ltuples = [(lk[i], 10 + i) for i in range(nl)]
                left, sig = mkframe([arr(lv, 'float64')], ['lv'], sf.IndexHierarchy.from_labels(ltuples) if tree_ok(ltuples) else None, li, name='L') if tree_ok(ltuples) else (None, None)
                if left is None:
                    continue
                r1 = [10 + (j % 3) for j in range(nr)]
                right, _ = mkframe([arr(r1, 'int64'), arr(rk, 'int64'), arr(rv, 'int64')], ['r1', 'r0', 'rv'], ridx, li, name='R')
                kw = dict(left_depth_level=[1, 0], right_columns=['r1', 'r0'])
                lkeys, rkeys = [(10 + i, lk[i]) for i in range(nl)], list(zip(r1, rk))
                lrow_ids, rrow_ids = ltuples, ridx
                lcols, rcols = {'lv': lv}, {'r1': r1, 'r0': list(rk), 'rv': rv}
            elif route == 'index':
                left, sig = mkframe([arr(lk2, '<U1'), arr(lv, 'float64')], ['k2', 'lv'], list(lk), li, name='L')
                right, _ = mkframe([arr(rk2, '<U1'), arr(rv, 'int64')], ['k2', 'rv'], list(rk), li, name='R')
                kw = dict(left_depth_level=0, right_depth_level=0)
                lkeys, rkeys = list(lk), list(rk)
                lrow_ids, rrow_ids = list(lk), list(rk)
                lcols, rcols = {'k2': lk2, 'lv': lv}, {'k2': rk2, 'rv': rv}
            else:
                left, sig = mkframe([arr(lk, 'int64'), arr(lk2, '<U1'), arr(lv, 'float64')], ['k', 'k2', 'lv'], lidx, li, name='L')
                right, _ = mkframe([arr(rk, 'int64'), arr(rk2, '<U1'), arr(rv, 'int64')], ['k', 'k2', 'rv'], ridx, li, name='R')
                if route in ('columns', 'columns-shared-labels'):
                    kw = dict(left_columns='k', right_columns='k')
                    lkeys, rkeys = list(lk), list(rk)
                else:
                    kw = dict(left_columns=['k', 'k2'], right_columns=['k', 'k2'])
                    lkeys, rkeys = list(zip(lk, lk2)), list(zip(rk, rk2))
                lrow_ids, rrow_ids = lidx, ridx
                lcols, rcols = {'k': lk, 'k2': lk2, 'lv': lv}, {'k': rk, 'k2': rk2, 'rv': rv}
            ctx.state(('join', route, lk, rk, sig))
            for kind in ('inner', 'left', 'right', 'outer'):
                ctx.transition()
                pairs = ref_join(kind, None, None, lkeys, rkeys)
                if len(pairs) != len(lkeys) or any(a is None or b is None for a, b in pairs):
                    ctx.nontriv(('join', route, lk, rk, kind))
                info = dict(route=route, left_keys=lk, right_keys=rk, kind=kind, layout=sig)
                try:
                    res = getattr(left, 'join_' + kind)(right, left_template='L_{}', right_template='R_{}', fill_value=None, **kw)
                except Exception as e:
                    ctx.violation(f'join_{kind}|raises|{type(e).__name__}|{route}', **info, error=repr(e))
                    continue
                # expected multiset of output rows
                exp = []
                for a, b in pairs:
                    row = {}
                    for c, vals in lcols.items():
                        row[key_of('L_' + c)] = vals[a] if a is not None else None
                    for c, vals in rcols.items():
                        row[key_of('R_' + c)] = vals[b] if b is not None else None
                    exp.append(row)
                got = row_dicts(res)
                canon = lambda rows: sorted(repr(sorted((k, ('NA',) if is_missing(v) else key_of(v)) for k, v in r.items())) for r in rows)
                if canon(got) != canon(exp):
                    ctx.violation(f'join_{kind}|rows|{route}', **info, got=canon(got), expected=canon(exp))
                    continue
                # one-to-one keys: the same rows must come back when a composite index is declined
                if len(set(lkeys)) == len(lkeys) and len(set(rkeys)) == len(rkeys) and route not in ('index', 'index-depth-list'):
                    ctx.transition()
                    try:
                        res1 = getattr(left, 'join_' + kind)(right, left_template='L_{}', right_template='R_{}', fill_value=None, composite_index=False, **kw)
                        if canon(row_dicts(res1)) != canon(exp):
                            shared = 'shared-row-labels' if route == 'columns-shared-labels' else 'distinct-row-labels'
                            ctx.violation(f'join_{kind}|composite_index=False|rows|{shared}', **info, got=canon(row_dicts(res1)), expected=canon(exp))
                    except Exception as e:
                        ctx.violation(f'join_{kind}|composite_index=False|raises|{type(e).__name__}', **info, error=repr(e))
                # each output row is labelled by its source rows (composite label) when both sides contribute labels
                if route not in ('index', 'index-depth-list'):
                    gl = [tuple(None if x is None else str(x) for x in t) for t in res.index]
                    expl = sorted(repr((lrow_ids[a] if a is not None else None, rrow_ids[b] if b is not None else None)) for a, b in pairs)
                    if sorted(map(repr, gl)) != expl:
                        ctx.violation(f'join_{kind}|row-labels|{route}', **info, got=gl, expected=expl)
            ctx.outcome('join:' + route)
    ctx.sample({'family': 'join', 'nl': nl, 'nr': nr, 'route': route, 'layout': li}, limit=1)


def run_case(case, ctx):
    fam = case[0]
    {'moves': run_moves, 'stack': run_stack, 'pivot': run_pivot, 'join': run_join}[fam](case, ctx)
