"""C09 Grow-only containers: append-only, all-or-nothing, never shared.

Modes H + F.  Every history of bounded depth over growth calls (valid and
invalid argument menus = the fault points), derivations and cache-materialising
reads is replayed on a fresh FrameGO (several layouts / column index kinds);
after every event the subject is compared with an append-only model; after a
rejected call the subject's deep snapshot must equal the pre-call snapshot and
labels and data must still be in step; at the end every container derived during
the history must have an unchanged snapshot, and growing a derived grow-only
container must not show through the source.
"""
import numpy as np

import static_frame as sf
from static_frame.core.index_base import IndexBase
from mc import universe as U
from mc.observe import columns_of, norm, snap

PROPERTY_ID = 'C09'
MODE = 'H + F (explicit-state exploration of event histories replayed on fresh objects; invalid growth arguments are the injected faults)'
RULE = ('case = (subject seed, first event); all event histories of depth <= D over growth calls (valid / duplicate / partly duplicate / wrong length / unaligned / unnamed / Frame-valued), '
        'derivations and reads; state = (column labels, per-column values) of the model + number of live derived containers; after each event: append-only agreement with the model, '
        'all-or-nothing after a rejection (deep snapshot equality + labels/data in step + every column readable), isolation of every derived container at the end; '
        'non-trivial = history containing >= 1 growth and >= 1 other event; transitions = events executed')
ASSUMPTIONS = [
    'a Series argument is aligned to the frame index (missing -> NaN) as documented; an unnamed Series extends with the label None',
    'which exception a rejected call raises is not compared',
    'index growth histories (IndexGO, IndexHierarchyGO) are explored by C02 / C05; here they appear as the columns of the FrameGO subjects',
]

IDX = ('x', 'y', 'z')


def seeds():
    a = U.frozen(np.array([1, 2, 3]))
    b = U.frozen(np.array([1.5, 2.5, 3.5]))
    c = U.frozen(np.array(['p', 'q', 'r']))
    out = {}
    out['explicit-1d'] = lambda: sf.FrameGO(sf.TypeBlocks.from_blocks([a, b]), index=IDX, columns=('a', 'b'), own_data=True, name='g')
    out['explicit-2d'] = lambda: sf.FrameGO(sf.TypeBlocks.from_blocks([U.frozen(np.column_stack([a, a * 2])), c]), index=IDX, columns=('a', 'b', 'c'), own_data=True, name='g')
    out['auto-columns'] = lambda: sf.FrameGO(sf.TypeBlocks.from_blocks([a, b]), index=IDX, own_data=True, name='g')
    out['empty-columns'] = lambda: sf.FrameGO(index=IDX, name='g')
    out['from-static'] = lambda: sf.Frame.from_items((('a', a), ('b', c)), index=IDX, name='g').to_frame_go()
    out['hier-columns'] = lambda: sf.FrameGO(sf.TypeBlocks.from_blocks([a, b]), index=IDX, columns=sf.IndexHierarchyGO.from_labels([('u', 1), ('u', 2)]), own_data=True, name='g')
    out['hier3-columns'] = lambda: sf.FrameGO(sf.TypeBlocks.from_blocks([a]), index=IDX, columns=sf.IndexHierarchyGO.from_labels([('u', 1, 'x')]), own_data=True, name='g')
    return out


def new_labels(seed):
    if seed == 'hier3-columns':
        return [('u', 1, 'y'), ('u', 2, 'x'), ('v', 1, 'x')]
    if seed == 'auto-columns':
        return [2, 3, 4]
    if seed.startswith('hier'):
        return [('u', 3), ('v', 1), ('v', 2)]
    return ['n1', 'n2', 'n3']


def events(seed, full=True):
    L = new_labels(seed)
    ev = []
    # --- growth: __setitem__
    ev.append(('set', L[0], 'array'))
    ev.append(('set', L[1], 'scalar'))
    ev.append(('set', L[0], 'series-aligned'))
    ev.append(('set', L[1], 'series-unaligned'))
    ev.append(('set', L[2], 'list'))
    ev.append(('set', 'EXISTING', 'array'))          # duplicate label -> rejected
    ev.append(('set', L[2], 'array-wrong-length'))   # rejected
    ev.append(('set', L[2], 'frame'))                # rejected
    ev.append(('set', L[2], 'array-2d'))             # rejected
    # --- growth: extend
    ev.append(('extend', 'frame-valid', (L[0], L[1])))
    ev.append(('extend', 'frame-unaligned', (L[1], L[2])))
    ev.append(('extend', 'frame-partly-duplicate', (L[2], 'EXISTING')))
    ev.append(('extend', 'frame-duplicate', ('EXISTING',)))
    ev.append(('extend', 'series-named', (L[2],)))
    ev.append(('extend', 'frame-empty', ()))
    # --- growth: extend_items
    ev.append(('extend_items', 'valid', (L[0], L[2])))
    ev.append(('extend_items', 'second-duplicate', (L[1], 'EXISTING')))
    ev.append(('extend_items', 'second-wrong-length', (L[2], L[1])))
    # --- derivations
    for d in ('drop.iloc[rows]', 'drop[first]', 'to_frame', 'to_frame_go', 'iloc[:, :]', 'getitem[first]', 'relabel', 'rename', 'sort_columns', 'reindex', 'mul', 'iter_series', 'transpose',
              'set_index', 'iter_group', 'iter_group-list', 'iter_group-list-grow', 'columns-static', 'deepcopy-grow', 'to_frame_go-grow', 'relabel-columns-callable'):
        ev.append(('derive', d))
    # --- reads
    for r in ('values', 'shape', 'columns.values', 'dtypes', 'loc[last-col]', 'loc[:, slice]'):
        ev.append(('read', r))
    if not full:
        # the quick tier keeps every growth call and fault, the derivations that can share state, and two reads
        keep = {'relabel-columns-callable', 'columns.values', 'loc[:, slice]', 'iter_group-list', 'iter_group-list-grow', 'drop.iloc[rows]', 'to_frame', 'to_frame_go', 'iloc[:, :]', 'rename', 'relabel', 'sort_columns', 'columns-static', 'to_frame_go-grow', 'deepcopy-grow', 'values', 'columns.values'}
        ev = [e for e in ev if e[0] not in ('derive', 'read') or e[1] in keep]
        ev = [e for e in ev if e not in (('set', L[2], 'frame'), ('set', L[2], 'array-2d'), ('extend', 'frame-empty', ()), ('set', L[2], 'list'))]
    return ev


def scope(tier):
    return dict(depth=3, alphabet='reduced (26 events)' if tier == 'quick' else 'full (40 events)')


def cases(tier):
    for seed in seeds():
        for first in range(len(events(seed, tier != 'quick'))):
            yield (seed, first, 3, tier != 'quick')
    for zseed in ZERO_SEEDS:
        yield ('zero-rows', zseed, 3 if tier == 'quick' else 4)
    for seed in seeds():
        for chunk in range(DERIVE_CHUNKS):
            yield ('derive-all', seed, chunk)


DERIVE_CHUNKS = 4


def run_derive_all(case, ctx):
    '''EVERY operation of the public interface of a grow-only Frame (introspected, the C01 menu) as a derivation: whatever containers it returns
    are untouched by later growth of the source, stay coherent, and growing a returned grow-only Frame leaves the source and its siblings untouched.'''
    from mc.props import c01
    _, seed, chunk = case
    mk = seeds()[seed]
    probe = mk()
    ops, _ = c01.enumerate_ops(probe)
    lab_src, lab_der = new_labels(seed)[0], new_labels(seed)[1]
    for oi, (opname, fn) in enumerate(ops):
        # (copy.copy is Python's shallow copy: an alias of the same blocks and columns by definition, not a derivation of the library)
        if oi % DERIVE_CHUNKS != chunk or opname.startswith(('setattr', 'setitem', 'delattr', 'values-write')) or opname == 'copy':
            continue
        f = mk()
        model = Model(f)
        c01.ARG_ARRAYS.clear()
        try:
            r = c01.materialise(fn(f))
        except Exception:
            continue
        arrs, conts = [], []
        c01.collect_arrays(r, arrs, conts)
        conts = [c for c in conts if c is not f and c is not f._columns and c is not f._index]      # the subject's own (live) axes are not derived containers
        frames = [c for c in conts if isinstance(c, sf.Frame)][:12]
        others = [c for c in conts if not isinstance(c, sf.Frame)][:12]
        if not conts:
            continue
        ctx.transition()
        ctx.state(('derive-all', seed, opname))
        ctx.nontriv(('derive-all', seed, opname))
        info = dict(seed=seed, derived_by=opname)
        try:
            snaps = [snap(c) for c in frames + others]
            # 1. the source grows
            f[lab_src] = np.array([7, 8, 9])
            for c, s0 in zip(frames + others, snaps):
                if snap(c) != s0:
                    ctx.violation(f'derive-all|{opname.split("(")[0]}|result-changed-after-source-grew', **info, result=type(c).__name__)
                    break
            else:
                for c in frames:
                    if len(c.columns) != c._blocks.shape[1] or c.shape[1] != len(c.columns):
                        ctx.violation(f'derive-all|{opname.split("(")[0]}|result-labels-and-data-out-of-step', **info, shape=c.shape, labels=len(c.columns))
                        break
            # 2. a returned grow-only Frame grows: the source (and its model) must not see it
            model.labels.append(lab_src)
            model.cols.append([7, 8, 9])
            model.dtypes.append(None)
            grown = 0
            for c in frames:
                if isinstance(c, sf.FrameGO) and c is not f and c.shape[0] == 3 and grown < 3:
                    lab2 = lab_der if c.columns.depth == f.columns.depth else 'zz-der'
                    try:
                        c[lab2] = np.array([0, 0, 0])
                        grown += 1
                    except Exception:
                        continue
            before = ctx.violation_count
            agree(ctx, f'derive-all|{opname.split("(")[0]}|source-after-result-grew', f, model, info)
        except Exception as e:
            ctx.violation(f'derive-all|{opname.split("(")[0]}|raises-{type(e).__name__}', **info, error=repr(e))
    ctx.outcome('derive-all')
    ctx.sample({'family': 'derive-all', 'seed': seed, 'operations': len(ops)}, limit=1)


ZERO_SEEDS = {
    'FrameGO(columns=)': lambda: sf.FrameGO(columns=('a', 'b'), name='g'),
    'FrameGO(index=())': lambda: sf.FrameGO(index=(), name='g'),
    'from_records([])': lambda: sf.FrameGO.from_records([], columns=('a', 'b'), name='g'),
    'iloc[:0]': lambda: sf.FrameGO.from_records([[1, 2.5]], columns=('a', 'b'), name='g').iloc[:0],
}
ZERO_EVENTS = [('set', 'n1', 'array-0'), ('set', 'n2', 'array-2'), ('set', 'n3', 'list-2'), ('set', 'n4', 'list-0'), ('set', 'n5', 'scalar'), ('set', 'a', 'array-0'),
               ('set', 'n6', 'series-2'), ('extend', 'frame-0'), ('extend', 'frame-2'), ('extend_items', 'second-wrong-length'), ('derive', 'to_frame'), ('read', 'values')]


def run_zero_rows(case, ctx):
    '''grow-only Frames with zero rows: a value with rows is refused, and a refused call leaves labels and data in step (all-or-nothing)'''
    _, zseed, depth = case
    mk = ZERO_SEEDS[zseed]

    def value(kind):
        return {'array-0': np.array([], dtype=np.int64), 'array-2': np.array([1, 2]), 'list-2': [1, 2], 'list-0': [], 'scalar': 7,
                'series-2': sf.Series([1, 2], index=('x', 'y'))}[kind]

    def explore(hist):
        f = mk()
        if f.shape[0] != 0:
            raise AssertionError('seed is not zero-row')
        labels = f.columns.values.tolist()
        info = dict(seed=zseed, history=[ZERO_EVENTS[i] for i in hist])
        for i in hist:
            ctx.transition()
            ev = ZERO_EVENTS[i]
            before = list(labels)
            try:
                if ev[0] == 'set':
                    ok_expected = ev[1] not in labels and ev[2] in ('array-0', 'list-0', 'scalar', 'series-2')   # a Series is aligned to the (empty) index
                    f[ev[1]] = value(ev[2])
                    labels.append(ev[1])
                elif ev[0] == 'extend':
                    ok_expected = ev[1] == 'frame-0' and 'e1' not in labels
                    other = sf.Frame(columns=('e1', 'e2')) if ev[1] == 'frame-0' else sf.Frame.from_records([[1, 2], [3, 4]], columns=('e1', 'e2'))
                    f.extend(other)
                    labels += ['e1', 'e2']
                elif ev[0] == 'extend_items':
                    ok_expected = False
                    f.extend_items((('i1', np.array([], dtype=float)), ('i2', np.array([1.0, 2.0]))))
                    labels += ['i1', 'i2']
                elif ev[0] == 'derive':
                    d = f.to_frame()
                    if d.shape != (0, len(labels)):
                        ctx.violation('zero-rows|to_frame-shape', **info, got=d.shape, expected=(0, len(labels)))
                        return False
                    continue
                else:
                    v = f.values
                    if v.shape != (0, len(labels)) and labels:
                        ctx.violation('zero-rows|values-shape', **info, got=v.shape, expected=(0, len(labels)))
                        return False
                    continue
                accepted = True
            except Exception as e:
                accepted = False
                err = e
            if accepted and not ok_expected and ev[0] != 'extend':
                ctx.violation(f'zero-rows|{ev[0]}:{ev[-1]}|invalid-growth-accepted', **info, shape=f.shape)
                return False
            if not accepted:
                if ev[0] == 'extend_items' and len(f.columns) == len(before) + 1 and f._blocks.shape[1] == len(f.columns):
                    labels[:] = before + ['i1']       # the known prefix behaviour of extend_items (recorded for the 3-row histories): follow the real object
                else:
                    labels[:] = before
            elif ev[0] == 'extend' and not ok_expected:
                pass
        ctx.state(('zero-rows', zseed, tuple(labels)))
        if len(hist) >= 2:
            ctx.nontriv(('zero-rows', zseed, tuple(hist)))
        try:
            got = f.columns.values.tolist()
            if len(f.columns) != f._blocks.shape[1] or f.shape != (0, len(got)):
                ctx.violation('zero-rows|end-of-history|columns-and-data-out-of-step', **info, labels=got, data=f._blocks.shape, shape=f.shape)
                return False
            if got != labels:
                ctx.violation('zero-rows|end-of-history|labels', **info, got=got, expected=labels)
                return False
            f.to_frame()
            f['final'] = np.array([], dtype=bool)      # still usable
            if f.shape != (0, len(labels) + 1):
                ctx.violation('zero-rows|end-of-history|unusable-after-history', **info, shape=f.shape)
                return False
        except Exception as e:
            ctx.violation(f'zero-rows|end-of-history|subject-unusable-{type(e).__name__}', **info, error=repr(e))
            return False
        return True

    def rec(hist):
        if not explore(hist):
            return
        if len(hist) < depth:
            for j in range(len(ZERO_EVENTS)):
                rec(hist + [j])
    for first in range(len(ZERO_EVENTS)):
        rec([first])
    ctx.outcome('zero-rows')
    ctx.sample({'family': 'zero-rows', 'seed': zseed, 'depth': depth, 'events': len(ZERO_EVENTS)}, limit=1)


def universe(tier):
    return dict(scope(tier), seeds=list(seeds()), events=[repr(e) for e in events('explicit-1d', tier != 'quick')])


class Model:
    def __init__(self, f):
        self.labels = [tuple(x) if isinstance(x, np.ndarray) else x for x in (f.columns if f.columns.depth > 1 else f.columns.values.tolist())]
        self.cols = [list(c) for c in columns_of(f)]
        self.dtypes = [str(c.dtype) for c in columns_of(f)]


def veq(a, b):
    na, nb = norm(a), norm(b)
    if na == nb:
        return True
    if na[0] in 'if' and nb[0] in 'if' and na[1] != 'nan' and nb[1] != 'nan':
        return float(a) == float(b)
    return False


def agree(ctx, tag, f, model, info, strict_prefix=None):
    try:
        labs = [tuple(x) if isinstance(x, (np.ndarray, tuple)) else x for x in (f.columns if f.columns.depth > 1 else f.columns.values.tolist())]
        if len(f.columns) != f._blocks.shape[1] or f.shape[1] != len(labs):
            return ctx.violation(f'{tag}|columns-and-data-out-of-step', **info, labels=len(f.columns), data=f._blocks.shape)
        if labs != model.labels:
            return ctx.violation(f'{tag}|labels', **info, got=labs, expected=model.labels)
        cols = columns_of(f)
        for j, (c, e) in enumerate(zip(cols, model.cols)):
            if len(c) != len(e) or not all(veq(x, y) for x, y in zip(c, e)):
                return ctx.violation(f'{tag}|values', **info, column=labs[j], got=[norm(x) for x in c], expected=[norm(x) for x in e])
            # every column is readable through the public route too
            r = f[labs[j]] if not isinstance(labs[j], tuple) else f[[labs[j]]].iloc[:, 0]
            if len(r) != len(e) or not all(veq(x, y) for x, y in zip(r.values, e)):
                return ctx.violation(f'{tag}|column-read', **info, column=labs[j])
        for j, d in enumerate(model.dtypes):
            if d is not None and str(cols[j].dtype) != d:
                return ctx.violation(f'{tag}|pre-existing-dtype-changed', **info, column=labs[j], got=str(cols[j].dtype), expected=d)
        if f.index.values.tolist() != list(IDX) or f.name != 'g':
            return ctx.violation(f'{tag}|index-or-name-changed', **info)
    except Exception as e:
        return ctx.violation(f'{tag}|subject-unusable-{type(e).__name__}', **info, error=repr(e))


def make_value(kind, n_new, existing_first, labels, row_count=3):
    base = 100 * (n_new + 1)
    if kind == 'array':
        return np.array([base + i for i in range(row_count)]), [base + i for i in range(row_count)]
    if kind == 'scalar':
        return base, [base] * row_count
    if kind == 'list':
        return ['s%d' % (base + i) for i in range(row_count)], ['s%d' % (base + i) for i in range(row_count)]
    if kind == 'series-aligned':
        return sf.Series([base, base + 1, base + 2], index=IDX), [base, base + 1, base + 2]
    if kind == 'series-unaligned':
        return sf.Series([base + 2, base, 7], index=('z', 'x', 'w')), [base, float('nan'), base + 2]
    if kind == 'array-wrong-length':
        return np.array([1, 2]), None
    if kind == 'array-2d':
        return np.zeros((3, 1)), None
    if kind == 'frame':
        return sf.Frame(np.zeros((3, 1)), index=IDX), None
    raise ValueError(kind)


def run_case(case, ctx):
    if case[0] == 'zero-rows':
        return run_zero_rows(case, ctx)
    if case[0] == 'derive-all':
        return run_derive_all(case, ctx)
    seed, first, depth, full = case
    evs = events(seed, full)
    mk = seeds()[seed]

    def explore(hist):
        f = mk()
        model = Model(f)
        n_new = 0
        derived = []   # (name, object, snapshot at derivation, is_go)
        info = dict(seed=seed, history=[evs[i] for i in hist])
        grew = False
        for i in hist:
            ctx.transition()
            ev = evs[i]
            kind = ev[0]
            if kind in ('set', 'extend', 'extend_items'):
                # NB: nothing is read from the subject between events (a read would materialise caches and hide stale-cache defects);
                # every prefix of a history is itself explored and fully compared at its end, so no check is lost
                existing = model.labels[0] if model.labels else None
                sub = lambda l: existing if l == 'EXISTING' else l
                expect_ok = True
                add_labels, add_cols = [], []
                try:
                    if kind == 'set':
                        _, lab, vk = ev
                        lab = sub(lab)
                        if lab is None:
                            continue
                        val, exp = make_value(vk, n_new, None, None)
                        expect_ok = exp is not None and lab not in model.labels and (not seed.startswith('hier') or hier_ok(model.labels, lab))
                        add_labels, add_cols = [lab], [exp]
                        call = lambda: f.__setitem__(lab, val)
                    elif kind == 'extend':
                        _, what, labs = ev
                        labs = [sub(l) for l in labs]
                        if any(l is None for l in labs) or len(set(map(repr, labs))) != len(labs):
                            continue
                        if what == 'series-named':
                            val = sf.Series([7, 8, 9], index=IDX, name=labs[0])
                            add_labels, add_cols = [labs[0]], [[7, 8, 9]]
                        elif what == 'frame-empty':
                            val = sf.Frame(index=IDX)
                        else:
                            ix = ('z', 'x', 'w') if what == 'frame-unaligned' else IDX
                            data = [[10 * (k + 1) + r for r in range(3)] for k in range(len(labs))]
                            cix = sf.IndexHierarchy.from_labels(labs) if seed.startswith('hier') and all(isinstance(l, tuple) for l in labs) and hier_tree(labs) else None
                            if seed.startswith('hier') and cix is None:
                                continue
                            val = sf.Frame.from_items(zip(range(len(labs)), data), index=ix).relabel(columns=cix if cix is not None else labs)
                            if what == 'frame-unaligned':
                                data = [[d[1], float('nan'), d[0]] for d in data]
                            add_labels, add_cols = list(labs), data
                        expect_ok = len(set(map(repr, add_labels))) == len(add_labels) and not any(l in model.labels for l in add_labels)
                        if seed.startswith('hier') and add_labels:
                            expect_ok = expect_ok and hier_tree(model.labels + add_labels)
                        call = lambda: f.extend(val)
                    else:
                        _, what, labs = ev
                        labs = [sub(l) for l in labs]
                        if any(l is None for l in labs) or seed.startswith('hier'):
                            continue
                        vals = [np.array([50 + 10 * k + r for r in range(3)]) for k in range(len(labs))]
                        if what == 'second-wrong-length':
                            vals[1] = np.array([1, 2])
                        add_labels, add_cols = list(labs), [v.tolist() for v in vals]
                        expect_ok = what == 'valid' and not any(l in model.labels for l in add_labels) and len(set(map(repr, add_labels))) == len(add_labels)
                        call = lambda: f.extend_items(zip(labs, vals))
                    try:
                        call()
                        ok = True
                    except Exception as e:
                        ok = False
                except Exception as e:
                    ctx.violation(f'harness-event|{kind}|{type(e).__name__}', **info, error=repr(e))
                    return False
                tag = f'{kind}:{ev[2] if kind == "set" else ev[1]}'
                ctx.outcome(f'{tag}:{"accepted" if ok else "rejected"}')
                if ok and not expect_ok:
                    ctx.violation(f'{tag}|invalid-growth-accepted', **info, labels=add_labels)
                    return False
                if not ok and expect_ok and seed.startswith('hier') and kind == 'extend' and any(l[0] == m[0] for l in add_labels for m in model.labels):
                    expect_ok = False   # extending a hierarchy under an outer label that exists is refused by this version (see C02): a refusal, checked to be atomic
                if not ok and expect_ok:
                    ctx.violation(f'{tag}|valid-growth-rejected', **info, labels=add_labels)
                    return False
                if ok:
                    model.labels += add_labels
                    model.cols += add_cols
                    model.dtypes += [None] * len(add_labels)
                    n_new += len(add_labels)
                    grew = grew or bool(add_labels)
                else:
                    # all-or-nothing: the model is left as it was, so the comparison at the end of this history (and of every longer one)
                    # demands the pre-call state.  extend_items is known to apply the pairs before the failing one: detect that here
                    # (one read, only on this path) and follow the real object so that the rest of the history can still be explored
                    if kind == 'extend_items' and f._blocks.shape[1] > len(model.labels) and f._blocks.shape[1] == len(f.columns):
                        ctx.violation(f'{tag}|rejected-call-not-atomic|prefix-of-the-items-was-applied', **info, before_columns=model.labels,
                                      after_columns=[repr(x) for x in f.columns], data_shape=f._blocks.shape)
                        model = Model(f)
                        model.dtypes = [None] * len(model.labels)
            elif kind == 'derive':
                name = ev[1]
                try:
                    if name == 'drop.iloc[rows]':
                        d = f.drop.iloc[[0]]
                    elif name == 'drop[first]':
                        if len(model.labels) < 2:
                            continue
                        d = f.drop[[model.labels[0]]]
                    elif name == 'to_frame':
                        d = f.to_frame()
                    elif name == 'to_frame_go':
                        d = f.to_frame_go()
                    elif name == 'iloc[:, :]':
                        d = f.iloc[:, :]
                    elif name == 'getitem[first]':
                        if not model.labels:
                            continue
                        d = f[[model.labels[0]]]
                    elif name == 'relabel':
                        d = f.relabel(index=('i', 'j', 'k'))
                    elif name == 'relabel-columns-callable':
                        # the column labels passed through a function, as the first use of the labels after a growth: every column is still there, under its label
                        d = f.relabel(columns=lambda l: l)
                        gl = [tuple(x) if isinstance(x, (np.ndarray, tuple)) else x for x in (d.columns if d.columns.depth > 1 else d.columns.values.tolist())]
                        if gl != list(model.labels) or d.shape != (3, len(model.labels)):
                            ctx.violation('derive:relabel-columns-callable|result-does-not-hold-every-column', **info, got=gl, expected=list(model.labels))
                            return False
                    elif name == 'rename':
                        d = f.rename('other')
                    elif name == 'sort_columns':
                        if not model.labels or not all(type(l) is type(model.labels[0]) for l in model.labels):
                            continue
                        d = f.sort_columns(ascending=False)
                        gl = [tuple(x) if isinstance(x, (np.ndarray, tuple)) else x for x in (d.columns if d.columns.depth > 1 else d.columns.values.tolist())]
                        if gl != sorted(model.labels, reverse=True) or d.shape != (3, len(model.labels)):
                            ctx.violation('derive:sort_columns|result-does-not-hold-every-column-sorted', **info, got=gl, expected=sorted(model.labels, reverse=True))
                            return False
                    elif name == 'reindex':
                        d = f.reindex(index=('z', 'y', 'w'))
                    elif name == 'mul':
                        d = f.iloc[:, :1] if any(isinstance(c[0], str) for c in model.cols[:1]) else (f.iloc[:, :1] * 2 if model.labels else f.to_frame())
                    elif name == 'iter_series':
                        d = tuple(f.iter_series(axis=0))
                    elif name == 'transpose':
                        if not model.labels:
                            continue
                        d = f.transpose()
                    elif name == 'set_index':
                        if not model.labels or seed.startswith('hier') or len(set(map(repr, model.cols[0]))) != len(model.cols[0]):
                            continue
                        d = f.set_index(model.labels[0])
                    elif name == 'iter_group':
                        if not model.labels or seed.startswith('hier'):
                            continue
                        d = tuple(g for _, g in f.iter_group_items(model.labels[0]))
                    elif name in ('iter_group-list', 'iter_group-list-grow'):
                        # a list of key columns goes through the unique-rows route (a single non-object key is grouped by sorting)
                        if not model.labels or seed.startswith('hier'):
                            continue
                        d = tuple(g for _, g in f.iter_group_items([model.labels[0]]))
                        if name.endswith('grow') and d:
                            d[0]['ZZ' if seed != 'auto-columns' else 99] = np.array([0] * len(d[0]))    # a group of a FrameGO is a FrameGO: growing it is its own business
                    elif name == 'columns-static':
                        d = f.columns._IMMUTABLE_CONSTRUCTOR(f.columns)
                    elif name in ('deepcopy-grow', 'to_frame_go-grow'):
                        # a grow-only container derived from the subject is itself grown: the subject must not see it
                        import copy
                        d = copy.deepcopy(f) if name == 'deepcopy-grow' else f.to_frame_go()
                        lab = (('zz', 9) if seed == 'hier-columns' else ('zz', 9, 'q')) if seed.startswith('hier') else ('ZZ' if seed != 'auto-columns' else 99)
                        d[lab] = np.array([0, 0, 0])
                    else:
                        raise ValueError(name)
                except Exception as e:
                    ctx.violation(f'derive:{name}|raises-{type(e).__name__}', **info, error=repr(e))
                    return False
                derived.append((name, d, snap(d)))
            else:
                try:
                    r = ev[1]
                    if r == 'values':
                        v = f.values
                        good = v.shape == (3, len(model.labels)) or (len(model.labels) == 0)
                    elif r == 'shape':
                        good = f.shape == (3, len(model.labels))
                    elif r == 'columns.values':
                        good = len(f.columns.values) == len(model.labels)
                    elif r == 'dtypes':
                        good = len(f.dtypes) == len(model.labels)
                    elif r == 'loc[:, slice]':
                        # a slice / partial label key as the first read after growth (label slices and hierarchy subtrees are mapped without the label array)
                        if not model.labels:
                            continue
                        if isinstance(model.labels[-1], tuple):
                            want = [j for j, l in enumerate(model.labels) if l[0] == model.labels[-1][0]]
                            sub = f.loc[:, sf.HLoc[model.labels[-1][0]]]
                        else:
                            want = list(range(len(model.labels)))
                            sub = f.loc[:, model.labels[0]:model.labels[-1]]
                        sub = sub if isinstance(sub, sf.Frame) else sub.to_frame()
                        good = sub.shape == (3, len(want)) and all(all(veq(x, y) for x, y in zip(c_, model.cols[j])) for c_, j in zip(columns_of(sub), want))
                    else:
                        if not model.labels:
                            continue
                        lab = model.labels[-1]
                        c = f[lab] if not isinstance(lab, tuple) else f[[lab]].iloc[:, 0]
                        good = all(veq(x, y) for x, y in zip(c.values, model.cols[-1]))
                    if not good:
                        ctx.violation(f'read:{r}|disagrees-with-model', **info)
                        return False
                except Exception as e:
                    ctx.violation(f'read:{r}|raises-{type(e).__name__}', **info, error=repr(e))
                    return False
        # end of history
        ctx.state((seed, tuple(map(repr, model.labels)), tuple(map(repr, model.cols)), len(derived)))
        if grew and len(hist) >= 2:
            ctx.nontriv((seed, tuple(hist)))
        before = ctx.violation_count
        agree(ctx, 'end-of-history', f, model, info)
        for name, d, s0 in derived:
            try:
                if snap(d) != s0:
                    ctx.violation(f'isolation|derived-{name}-changed-after-source-grew', **info)
                for d in (d if isinstance(d, tuple) else (d,)):
                    # every read route of a derived Frame still agrees (a shared column-to-block map would break positional routes only)
                    if isinstance(d, sf.Frame):
                        cols_d = columns_of(d)
                        arrs = list(d.iter_array(axis=0))
                        if d.shape[1] != len(cols_d) or len(arrs) != len(cols_d) or len(d.columns) != len(cols_d):
                            ctx.violation(f'isolation|derived-{name}-labels-and-data-out-of-step', **info, shape=d.shape, blocks=len(cols_d), labels=len(d.columns))
                        else:
                            for j, c in enumerate(cols_d):
                                if not all(veq(x, y) for x, y in zip(d.iloc[:, j].values, c)) or not all(veq(x, y) for x, y in zip(arrs[j], c)):
                                    ctx.violation(f'isolation|derived-{name}-read-routes-disagree', **info, column=j)
                                    break
                    # labels the source acquired later must be unknown to what was derived before (membership is not part of the snapshot)
                    dcols = d if isinstance(d, IndexBase) else getattr(d, 'columns', None)
                    if dcols is not None and name not in ('transpose', 'deepcopy-grow', 'to_frame_go-grow', 'iter_group-list-grow'):
                        held = [tuple(x) if isinstance(x, np.ndarray) else x for x in (dcols if dcols.depth > 1 else dcols.values.tolist())]
                        for lab in model.labels:
                            if lab not in held and lab in dcols:
                                ctx.violation(f'isolation|derived-{name}-knows-a-label-the-source-acquired-later', **info, label=lab)
                                break
            except Exception as e:
                ctx.violation(f'isolation|derived-{name}-unusable-{type(e).__name__}', **info, error=repr(e))
        return ctx.violation_count == before

    def rec(hist):
        if not explore(hist):
            return
        if len(hist) < depth:
            for j in range(len(evs)):
                if evs[j][0] == 'read' and evs[hist[-1]][0] == 'read':
                    continue
                rec(hist + [j])
    rec([first])
    ctx.sample({'seed': seed, 'first_event': repr(evs[first]), 'depth': depth, 'events': len(evs)}, limit=1)


def hier_tree(labels):
    if not all(isinstance(l, tuple) for l in labels) or len(set(labels)) != len(labels):
        return False
    depth = len(labels[0]) if labels else 0
    for d in range(1, depth):
        seen = []
        for l in labels:
            p = l[:d]
            if seen and p != seen[-1] and p in seen:
                return False
            seen.append(p)
    return True


def hier_ok(existing, lab):
    return isinstance(lab, tuple) and hier_tree(list(existing) + [lab])
