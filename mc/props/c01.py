"""C01 Immutability: no public operation changes an existing static container.

Mode H.  Seeds of every static container kind are built from caller-held
WRITEABLE arrays; the public interface of each class is enumerated by
introspection (properties, methods with arguments filled from a typed menu,
selector interfaces with a key menu, iterator interfaces with apply / map);
the exploration is a breadth-first search of depth 2: containers produced at
depth 1 are de-duplicated (class + deep snapshot) and the whole menu is applied
to them again.  After every transition: (i) the deep snapshot of every container
that existed before is unchanged; (ii) every ndarray reachable from the result
and from the operands is read-only; (iii) no reachable array shares memory with
a caller-held writeable input; (iv) after the caller writes into its arrays all
snapshots are unchanged; (v) pickle / deepcopy preserve content and read-only
status.
"""
import copy
import inspect
import itertools
import os
import pickle

import numpy as np

import static_frame as sf
from static_frame.core.index_base import IndexBase
from mc.observe import arrays, snap

PROPERTY_ID = 'C01'
MODE = 'H (explicit-state BFS over the introspected public interface; state = container (class + deep snapshot); invariants on every transition)'
RULE = ('case = (seed, chunk of the operation menu, depth); every enumerated operation is applied to the seed (depth 1) and to every distinct container produced by depth 1 (depth 2); '
        'invariants (i)-(v) after every transition; non-trivial = transition that returns a container or array; states = distinct (class, deep snapshot) containers; '
        'transitions = operation applications (calls that raise are transitions too: a failing call must not mutate)')
ASSUMPTIONS = [
    'arguments are filled from a typed menu by parameter name; operations the menu cannot drive at all are listed in the evidence (not_driven) and not claimed',
    'file / clipboard / display exporters and optional-dependency converters are not driven (they return no static-frame container or array)',
    'a caller who flips flags.writeable on an array that owns its data is outside the property',
]

SKIP = {'interface', 'display', 'display_tall', 'display_wide', 'to_html', 'to_html_datatables', 'to_clipboard', 'to_xarray', 'to_arrow', 'to_parquet', 'to_hdf5', 'to_xlsx',
        'to_sqlite', 'to_msgpack', 'to_pandas', 'to_csv', 'to_tsv', 'to_delimited', 'to_latex', 'to_markdown', 'to_rst', 'to_zip_pickle', 'to_zip_csv', 'to_zip_tsv',
        'to_zip_parquet', 'to_visidata', 'to_pickle', 'sample', 'STATIC', 'mloc', 'nbytes'}
SELECTORS = ('loc', 'iloc', 'bloc', 'drop', 'mask', 'masked_array', 'assign', 'astype')


ARG_ARRAYS = {}


def caller_arrays():
    '''fresh, writeable arrays the "caller" keeps a reference to'''
    return {
        'f8': np.array([1.5, np.nan, 3.5]),
        'i8': np.array([3, 1, 2]),
        'i8b': np.array([10, 20, 30]),
        'U': np.array(['x', 'y', 'z']),
        'O': np.array([None, 'o', (1, 2)], dtype=object),
        'lab': np.array(['a', 'b', 'c']),
        'dates': np.array(['2020-01-01', '2020-01-02', '2020-02-01'], dtype='datetime64[D]'),
        '2d': np.arange(6).reshape(3, 2),
        'bool': np.array([True, False, True]),
        'struct': np.array([(1, 1.5, 'u'), (2, 2.5, 'v'), (3, 3.5, 'w')], dtype=[('x', 'i8'), ('y', 'f8'), ('z', '<U1')]),
    }


def build_seed(name, A):
    if name == 'Index':
        return sf.Index(A['lab'], name='ix')
    if name == 'IndexGO->static':
        return sf.Index(sf.IndexGO(A['lab']))
    if name == 'IndexDate':
        return sf.IndexDate(A['dates'])
    if name == 'IndexHierarchy':
        return sf.IndexHierarchy.from_labels([('a', 1), ('a', 2), ('b', 1)], name='ih')
    if name == 'IndexHierarchy-depth3':
        return sf.IndexHierarchy.from_labels([('a', 1, 'x'), ('a', 1, 'y'), ('a', 2, 'x'), ('b', 3, 'x'), ('b', 3, 'y')], name='ih3')   # middle labels distinct across parents: outer depths can be dropped
    if name == 'Series-hier3':
        return sf.Series(A['i8'], index=sf.IndexHierarchy.from_labels([('a', 1, 'x'), ('a', 2, 'x'), ('b', 3, 'y')]), name='s')
    if name == 'Frame-hier3-index':
        return sf.Frame.from_items((('p', A['i8']), ('q', A['f8'])), index=sf.IndexHierarchy.from_labels([('a', 1, 'x'), ('a', 2, 'x'), ('b', 3, 'y')]), name='f')
    if name == 'IndexHierarchy-from-arrays':
        return sf.IndexHierarchy._from_type_blocks(sf.TypeBlocks.from_blocks((A['lab'], A['i8'])))
    if name == 'Series-float':
        return sf.Series(A['f8'], index=A['lab'], name='s')
    if name == 'Series-object':
        return sf.Series(A['O'], index=sf.IndexDate(A['dates']), name='s')
    if name == 'SeriesHE':
        return sf.SeriesHE(A['i8'], index=A['lab'], name='s')
    if name == 'Series-hier':
        return sf.Series(A['i8'], index=sf.IndexHierarchy.from_labels([('a', 1), ('a', 2), ('b', 1)]), name='s')
    if name == 'Frame-mixed-1d':
        return sf.Frame.from_items((('p', A['i8']), ('q', A['f8']), ('r', A['U'])), index=A['lab'], name='f')
    if name == 'Frame-2d-block':
        return sf.Frame(A['2d'], index=A['lab'], columns=('p', 'q'), name='f')
    if name == 'Frame-typeblocks':
        return sf.Frame(sf.TypeBlocks.from_blocks((A['2d'], A['f8'], A['bool'])), index=A['lab'], columns=('p', 'q', 'r', 's'), name='f')
    if name == 'FrameHE':
        return sf.FrameHE.from_items((('p', A['i8']), ('q', A['i8b'])), index=A['lab'], name='f')
    if name == 'Frame-hier-columns':
        return sf.Frame.from_items(((('u', 1), A['i8']), (('u', 2), A['f8'])), index=A['lab'], columns_constructor=sf.IndexHierarchy.from_labels, name='f')
    if name == 'Frame-zero-rows':
        return sf.Frame.from_items((('p', A['i8'][:0]), ('q', A['f8'][:0])), name='f')
    if name == 'Frame-from-structured-array':
        return sf.Frame.from_structured_array(A['struct'], name='f')
    if name == 'Frame-from-structured-array-index':
        return sf.Frame.from_structured_array(A['struct'], index_depth=1, name='f')
    if name == 'Frame-from-2d-as-structured':
        return sf.Frame.from_structured_array(A['2d'], name='f', store_filter=None)
    if name in ('FrameGO-grown-with-caller-arrays.to_frame()', 'FrameGO-grown-with-caller-arrays[column]'):
        # a grow-only Frame whose columns were assigned from the caller's arrays and from VIEWS of them (a write through the base reaches a kept view)
        g = sf.FrameGO(index=A['lab'])
        g['p'] = A['i8']
        g['q'] = A['2d'][:, 1]
        g['r'] = A['f8'][::-1]
        g.extend_items((('s', A['i8b'][:]),))
        return g.to_frame().rename('f') if name.endswith('to_frame()') else g['q'].rename('s')
    if name == 'Frame-from-records':
        return sf.Frame.from_records([A['i8'], A['i8b']], columns=A['lab'], name='f')
    if name == 'Frame-from-concat':
        return sf.Frame.from_concat((sf.Series(A['i8'], index=A['lab'], name='x'), sf.Series(A['f8'], index=A['lab'], name='y')), axis=1)
    if name in GO_SEEDS:
        return GO_SEEDS[name](A)[0]
    if name == 'Series-1030-labels':
        # more labels than the shared positions buffer initially holds (1024): the re-allocated buffer must be frozen too
        return sf.Series(np.arange(1030), index=np.arange(1030) * 2, name='big')
    raise ValueError(name)


def _go_index(A):
    go = sf.IndexGO(A['lab'])
    return sf.Index(go), (lambda: go.append('NEW')), 'NEW', (lambda c: c)


def _go_frame_to_frame(A):
    g = sf.FrameGO.from_items((('p', A['i8']), ('q', A['f8'])), index=A['lab'], name='f')
    return g.to_frame(), (lambda: g.__setitem__('NEW', A['i8b'])), 'NEW', (lambda c: c.columns)


def _go_frame_ctor(A):
    g = sf.FrameGO.from_items((('p', A['i8']), ('q', A['f8'])), index=A['lab'], name='f')
    return sf.Frame(g), (lambda: g.__setitem__('NEW', A['i8b'])), 'NEW', (lambda c: c.columns)


def _go_columns_as_index(A):
    g = sf.FrameGO.from_items((('a', A['i8']), ('b', A['f8']), ('c', A['i8b'])), name='f')
    return sf.Series(A['i8'], index=g.columns, name='s'), (lambda: g.__setitem__('NEW', A['i8b'])), 'NEW', (lambda c: c.index)


def _go_hier(A):
    go = sf.IndexHierarchyGO.from_labels([('a', 1), ('a', 2), ('b', 1)])
    return sf.IndexHierarchy(go), (lambda: go.append(('b', 2))), ('b', 2), (lambda c: c)


def _go_frame_rename(A):
    g = sf.FrameGO.from_items((('p', A['i8']), ('q', A['f8'])), index=A['lab'], name='f')
    return g.rename('other').to_frame(), (lambda: g.__setitem__('NEW', A['i8b'])), 'NEW', (lambda c: c.columns)


def _go_index_items(A):
    # a static hierarchy assembled from grow-only leaf indices; a leaf then grows
    leaf_a, leaf_b = sf.IndexGO((1, 2)), sf.IndexGO((1, 3))
    return sf.IndexHierarchy.from_index_items((('a', leaf_a), ('b', leaf_b))), (lambda: leaf_a.append(9)), ('a', 9), (lambda c: c)


def _go_concat_items(A):
    # a static Frame concatenated (axis 1, labelled by key) from grow-only Frames; a part then grows
    g1 = sf.FrameGO.from_items((('p', A['i8']), ('q', A['f8'])), index=A['lab'], name='g1')
    g2 = sf.FrameGO.from_items((('p', A['i8b']),), index=A['lab'], name='g2')
    return sf.Frame.from_concat_items((('x', g1), ('y', g2)), axis=1), (lambda: g1.__setitem__('NEW', A['i8b'])), ('x', 'NEW'), (lambda c: c.columns)


def _go_series_concat_items(A):
    s1 = sf.Series(A['i8'], index=sf.IndexGO(A['lab']), name='s1')
    go_ix = s1.index
    s2 = sf.Series(A['f8'], index=A['lab'], name='s2')
    return sf.Series.from_concat_items((('x', s1), ('y', s2))), (lambda: go_ix.append('NEW') if hasattr(go_ix, 'append') else None), ('x', 'NEW'), (lambda c: c.index)


def _go_product(A):
    # a static hierarchy built as a product with a grow-only inner level; that level then grows
    inner = sf.IndexGO((1, 2))
    ih = sf.IndexHierarchy.from_product(('a', 'b'), inner)
    ih.values
    return ih, (lambda: inner.append(9)), ('a', 9), (lambda c: c)


def _go_levels_ctor(A):
    # static hierarchy from another static hierarchy that was itself built from a grow-only one (two derivation steps)
    go = sf.IndexHierarchyGO.from_labels([('a', 1), ('a', 2), ('b', 1)])
    mid = sf.IndexHierarchy(go)
    return sf.Series(A['i8'], index=mid, name='s'), (lambda: go.append(('b', 2))), ('b', 2), (lambda c: c.index)


def _static_into_go(how):
    # the reverse direction: a STATIC Frame is taken into a grow-only one (extend of an empty / non-empty FrameGO, to_frame_go, FrameGO(frame)); the grow-only Frame then grows
    def build(A):
        f = sf.Frame.from_items((('p', A['i8']), ('q', A['f8'])), index=A['lab'], name='f')
        if how == 'extend-empty':
            go = sf.FrameGO(index=f.index)
            go.extend(f)
        elif how == 'extend-nonempty':
            go = sf.FrameGO.from_items((('z', A['i8b']),), index=A['lab'])
            go.extend(f)
        elif how == 'to_frame_go':
            go = f.to_frame_go()
        else:
            go = sf.FrameGO(f)
        extra = sf.Frame.from_items((('NEW2', A['f8'].copy()),), index=f.index)
        def grow():
            go['NEW'] = np.arange(len(f.index))
            go.extend(extra)
        return f, grow, 'NEW', (lambda c: c.columns)
    return build


GO_SEEDS = {'Frame-extended-into-an-empty-FrameGO': _static_into_go('extend-empty'), 'Frame-extended-into-a-FrameGO': _static_into_go('extend-nonempty'),
            'Frame.to_frame_go()-source': _static_into_go('to_frame_go'), 'FrameGO(Frame)-source': _static_into_go('ctor'),
            'IndexHierarchy.from_product(IndexGO)': _go_product, 'Series(index=IndexHierarchy(IndexHierarchyGO))': _go_levels_ctor,
            'IndexHierarchy.from_index_items(IndexGO)': _go_index_items, 'Frame.from_concat_items(FrameGO)': _go_concat_items,
            'Series.from_concat_items(index=IndexGO)': _go_series_concat_items, 'Index(IndexGO)': _go_index, 'FrameGO.to_frame()': _go_frame_to_frame, 'Frame(FrameGO)': _go_frame_ctor, 'Series(index=FrameGO.columns)': _go_columns_as_index,
            'IndexHierarchy(IndexHierarchyGO)': _go_hier, 'FrameGO.rename().to_frame()': _go_frame_rename}


SEEDS_QUICK = ['Frame-from-structured-array', 'Frame-from-structured-array-index', 'Frame-from-2d-as-structured', 'Index', 'IndexDate', 'IndexHierarchy', 'IndexHierarchy-depth3', 'Series-hier3', 'Frame-hier3-index', 'Series-float', 'Series-object', 'SeriesHE', 'Frame-mixed-1d', 'Frame-2d-block', 'FrameHE', 'Frame-zero-rows',
               'Series-1030-labels', 'FrameGO-grown-with-caller-arrays.to_frame()', 'FrameGO-grown-with-caller-arrays[column]'] + list(GO_SEEDS)
SEEDS_ALL = SEEDS_QUICK + ['IndexGO->static', 'IndexHierarchy-from-arrays', 'Series-hier', 'Frame-typeblocks', 'Frame-hier-columns', 'Frame-from-records', 'Frame-from-concat']
DEPTH2_QUICK = {'Series-float', 'Frame-mixed-1d', 'IndexHierarchy'}


def first_label(c, axis=0):
    try:
        if isinstance(c, IndexBase):
            ix = c
        elif isinstance(c, sf.Frame) and axis == 1:
            ix = c.columns
        else:
            ix = c.index
        l = next(iter(ix))
        return tuple(l) if isinstance(l, np.ndarray) else l
    except Exception:
        return 0


def arg_menu(c, pname, default):
    '''candidate values for a parameter, by name'''
    n = len(c) if hasattr(c, '__len__') else 1
    lab = first_label(c)
    m = {
        'axis': [0, 1], 'skipna': [True, False], 'ascending': [False], 'count': [1, -1, -2], 'shift': [1], 'ddof': [1], 'size': [2], 'step': [1], 'limit': [1], 'decimals': [1],
        'fill_value': [0], 'value': [0, c], 'other': [c, 2], 'others': [c], 'func': [lambda *a: a[0]], 'dtype': [float, object], 'dtypes': [object], 'name': ['renamed'],
        'key': [lab, 0], 'label': [lab], 'labels': [[lab]], 'depth_level': [0], 'level': ['L'], 'condition': [np.any], 'lower': [0], 'upper': [1], 'values': [[lab, 0]],
        'index': [None, list(range(n)), 1, -1], 'columns': [None, 1, 0, -1], 'container': [sf.Series((1, 2, 3), name='new')],
        'mapping': [{lab: 'zz'}], 'config': [None], 'kind': ['mergesort'], 'side_left': [True], 'exclude_first': [True], 'exclude_last': [False], 'q': [0.5],
        'consolidate_blocks': [True], 'index_constructor': [None], 'names': [('n1', 'n2')], 'column': [first_label(c, 1)], 'index_fields': [first_label(c, 1)],
        'columns_fields': [()], 'data_fields': [()], 'compare_name': [True], 'compare_dtype': [True], 'compare_class': [True], 'window_sized': [True], 'include_index': [True],
        'include_columns': [True], 'reorder_for_hierarchy': [True], 'drop': [True], 'own_index': [False], 'own_columns': [False], 'check_equals': [True], 'unique': [True],
        'left_columns': [first_label(c, 1)], 'right_columns': [first_label(c, 1)], 'left_depth_level': [0], 'right_depth_level': [0], 'template': ['{}'],
        'pattern': ['a'], 'chars': ['a'], 'width': [3], 'sub': ['a'], 'format': ['%Y'], 'encoding': ['utf-8'], 'sep': ['-'], 'old': ['a'], 'new': ['b'], 'iterable': [['a']],
    }
    if pname in m:
        return [v for v in m[pname] if not (v is None and default is inspect.Parameter.empty)] or m[pname]
    return [0, 'a']


def _numeric(x):
    dts = x.dtypes.values.tolist() if isinstance(x, sf.Frame) else [x.dtype] if hasattr(x, 'dtype') else [np.dtype(object)]
    if isinstance(x, sf.IndexHierarchy):
        dts = list(x.dtypes.values)
    return bool(dts) and all(d.kind in 'iuf' for d in dts)


def enumerate_ops(c):
    '''list of (op name, callable(container) -> result).  Introspection of the public interface of type(c).'''
    ops = []
    not_driven = []
    cls = type(c)
    for name in sorted(dir(cls)):
        if name.startswith('_') or name in SKIP or name.startswith('from_') or name.startswith('to_zip') or name.startswith('to_hdf') :
            continue
        try:
            attr = inspect.getattr_static(cls, name)
        except AttributeError:
            continue
        if isinstance(attr, property) or not callable(getattr(cls, name, None)):
            if name in SELECTORS or name.startswith('iter_') or name.startswith('via_'):
                continue
            ops.append((f'prop:{name}', lambda x, name=name: getattr(x, name)))
            continue
        if name in SELECTORS or name.startswith('iter_') or name.startswith('via_'):
            continue
        fn = getattr(cls, name)
        try:
            sig = inspect.signature(fn)
        except (TypeError, ValueError):
            not_driven.append(name)
            continue
        params = [p for p in list(sig.parameters.values())[1:] if p.kind in (p.POSITIONAL_OR_KEYWORD, p.KEYWORD_ONLY)]
        required = [p for p in params if p.default is inspect.Parameter.empty]
        optional_interesting = [p for p in params if p.default is not inspect.Parameter.empty and p.name in ('axis', 'skipna', 'ascending', 'fill_value', 'dtype', 'ddof', 'count', 'index', 'columns', 'depth_level')]
        if not required:
            ops.append((f'call:{name}()', lambda x, name=name: getattr(x, name)()))
            for p in optional_interesting:
                for i, _ in enumerate(arg_menu(c, p.name, p.default)):
                    ops.append((f'call:{name}({p.name}#{i})', lambda x, name=name, p=p, i=i: getattr(x, name)(**{p.name: arg_menu(x, p.name, p.default)[i]})))
            continue
        # fill required parameters from the menu: the product of up to 2 candidates each
        cands = [range(min(2, len(arg_menu(c, p.name, p.default)))) for p in required]
        for combo in itertools.islice(itertools.product(*cands), 4):
            def call(x, name=name, required=required, combo=combo):
                kw = {}
                for p, i in zip(required, combo):
                    menu = arg_menu(x, p.name, p.default)
                    kw[p.name] = menu[i % len(menu)]
                return getattr(x, name)(**kw)
            ops.append((f'call:{name}({",".join(p.name + "#" + str(i) for p, i in zip(required, combo))})', call))
    # selector interfaces
    def keys_for(x):
        n = len(x) if hasattr(x, '__len__') else 0
        lab = first_label(x)
        ks = [('int', 0), ('slice', slice(None)), ('slice-rev', slice(None, None, -1)), ('list', [0] if n else []), ('mask', np.array([i % 2 == 0 for i in range(n)], dtype=bool))]
        return ks, [('label', lab), ('label-list', [lab]), ('null', slice(None))]
    for sel in SELECTORS:
        if not hasattr(cls, sel):
            continue
        for route in ('iloc', 'loc', 'getitem'):
            for ki in range(5 if route == 'iloc' else 3):
                def call(x, sel=sel, route=route, ki=ki):
                    pk, lk_ = keys_for(x)
                    key = (pk if route == 'iloc' else lk_)[ki][1]
                    base = getattr(x, sel)
                    if sel in ('loc', 'iloc'):
                        if sel != route:
                            raise LookupError('n/a')
                        return base[key]
                    if sel == 'bloc':
                        if route != 'getitem' or not isinstance(x, sf.Frame):
                            raise LookupError('n/a')
                        return x.bloc[x.notna()]
                    target = base if route == 'getitem' else getattr(base, route)
                    r = target[key]
                    if sel == 'assign':
                        return (r(0), r.apply(lambda v: v))
                    if sel == 'astype':
                        return r(object)
                    return r
                ops.append((f'sel:{sel}.{route}[{ki}]', call))
    if hasattr(cls, '__getitem__'):
        ops.append(('sel:getitem[label]', lambda x: x[first_label(x, 1) if isinstance(x, sf.Frame) else first_label(x)]))
    # iterators: iterate, apply, map
    for name in sorted(dir(cls)):
        if name.startswith('iter_'):
            for axis in ((0, 1) if issubclass(cls, sf.Frame) else (None,)):
                def call(x, name=name, axis=axis):
                    it = getattr(x, name)
                    kw = {}
                    params = inspect.signature(it.__call__).parameters if hasattr(it, '__call__') else {}
                    if 'axis' in params and axis is not None:
                        kw['axis'] = axis
                    if 'size' in params:
                        kw['size'] = 2
                    if 'key' in params:
                        kw['key'] = first_label(x, 1) if isinstance(x, sf.Frame) and (axis in (0, None)) else first_label(x)
                    if 'depth_level' in params:
                        kw['depth_level'] = 0
                    node = it(**kw)
                    items = list(itertools.islice(iter(node), 20))
                    out = [items]
                    try:
                        out.append(node.apply(lambda *a: 1))
                    except Exception:
                        pass
                    return out
                ops.append((f'iter:{name}(axis={axis})', call))
    for name in ('via_str', 'via_dt', 'via_T', 'via_fill_value', 'via_re'):
        if hasattr(cls, name):
            def call(x, name=name):
                v = getattr(x, name)
                if name == 'via_str':
                    return (v.upper(), v.len(), v[0:1])
                if name == 'via_dt':
                    return (v.year, v.isoformat())
                if name == 'via_T':
                    return v * sf.Series((1, 2, 3), index=x.index)
                if name == 'via_fill_value':
                    return v(0) + x
                return v('a').search()
            ops.append((f'via:{name}', call))
    # operations handed a writeable array the caller keeps: nothing in the result may share memory with it
    def W(shape, dtype='int64'):
        a = np.arange(int(np.prod(shape)) if shape else 1, dtype=dtype).reshape(shape) + 500
        ARG_ARRAYS['arg%d' % len(ARG_ARRAYS)] = a
        return a
    if issubclass(cls, sf.Frame):
        ops += [
            ('arg:assign.iloc[:,0:2](2d-array)', lambda x: x.assign.iloc[:, 0:2](W((x.shape[0], min(2, x.shape[1]))))),
            ('arg:assign.iloc[:,1:](2d-array)', lambda x: x.assign.iloc[:, 1:](W((x.shape[0], max(0, x.shape[1] - 1))))),
            ('arg:assign.getitem[first-two](2d-array)', lambda x: x.assign[list(x.columns)[:2]](W((x.shape[0], min(2, x.shape[1]))))),
            ('arg:assign.iloc[:,:](2d-array)', lambda x: x.assign.iloc[:, :](W(x.shape))),
            ('arg:assign.iloc[:,0](1d-array)', lambda x: x.assign.iloc[:, 0](W((x.shape[0],)))),
            ('arg:assign.iloc[0](1d-array)', lambda x: x.assign.iloc[0](W((x.shape[1],)))),
            ('arg:assign.loc[:,first](1d-array)', lambda x: x.assign.loc[:, first_label(x, 1)](W((x.shape[0],), 'float64'))),
            ('arg:relabel(index=array)', lambda x: x.relabel(index=W((x.shape[0],)))),
            ('arg:relabel(columns=array)', lambda x: x.relabel(columns=W((x.shape[1],)))),
            ('arg:reindex(index=array)', lambda x: x.reindex(index=W((x.shape[0],)), fill_value=0)),
            ('arg:add(2d-array)', lambda x: x.iloc[:, :0].shape and x * 0 if any(k in 'USOMm' for k in (d.kind for d in x.dtypes.values)) else x + W(x.shape)),
            ('arg:insert_after(series-of-array)', lambda x: x.insert_after(first_label(x, 1), sf.Series(W((x.shape[0],)), index=x.index, name='zz'))),
            ('arg:fillna(frame-of-array)', lambda x: x.fillna(sf.Frame(W(x.shape), index=x.index, columns=x.columns))),
        ]
    elif issubclass(cls, sf.Series):
        ops += [
            ('arg:assign.iloc[:](1d-array)', lambda x: x.assign.iloc[:](W((len(x),)))),
            ('arg:assign.iloc[1:](1d-array)', lambda x: x.assign.iloc[1:](W((max(0, len(x) - 1),)))),
            ('arg:relabel(array)', lambda x: x.relabel(W((len(x),)))),
            ('arg:reindex(array)', lambda x: x.reindex(W((len(x),)), fill_value=0)),
            ('arg:isin(array)', lambda x: x.isin(W((2,)))),
            ('arg:fillna(series-of-array)', lambda x: x.fillna(sf.Series(W((len(x),)), index=x.index))),
        ]
    elif issubclass(cls, sf.Index) and not issubclass(cls, (sf.IndexGO,)):
        ops += [
            ('arg:union(array)', lambda x: x.union(W((2,)))),
            ('arg:intersection(array)', lambda x: x.intersection(W((2,)))),
            ('arg:isin(array)', lambda x: x.isin(W((2,)))),
            ('arg:constructor(array)', lambda x: type(x)(W((3,)) if x.dtype.kind not in 'M' else W((3,)).astype('datetime64[D]'))),
        ]
    # operators, pickle, copies
    ops += [('op:neg', lambda x: -x), ('op:add-self', lambda x: x + x), ('op:eq-self', lambda x: x == x), ('op:mul2', lambda x: x * 2), ('op:radd', lambda x: 1 + x),
            ('op:invert', lambda x: ~x), ('op:abs', lambda x: abs(x)), ('op:matmul', lambda x: _numeric(x) and x @ x), ('op:round', lambda x: round(x, 1)), ('op:round0', lambda x: round(x)),
            ('op:pos', lambda x: +x), ('op:floordiv', lambda x: x // 2), ('op:pow', lambda x: x ** 2), ('op:rsub', lambda x: 1 - x), ('op:lt', lambda x: x < 2),
            # (matmul only on numeric containers: NumPy's object-dtype matmul corrupts reference counts when an element operation raises, and the process dies later)
            ('arg:matmul(array)', lambda x: _numeric(x) and x @ W((len(x),) if not isinstance(x, sf.Frame) else (x.shape[1],), 'float64')),
            # (array @ container is NumPy's own operator first: it reads the container as a sequence of labels and returns its own array, not one the library hands out)
            ('arg:matmul(2d-array)', lambda x: _numeric(x) and x @ W((len(x), 2) if not isinstance(x, sf.Frame) else (x.shape[1], 2), 'float64')),
            ('pickle', lambda x: ('ROUNDTRIP', pickle.loads(pickle.dumps(x)))), ('deepcopy', lambda x: ('ROUNDTRIP', copy.deepcopy(x))), ('copy', lambda x: ('ROUNDTRIP', copy.copy(x))),
            ('len-iter-contains', lambda x: (len(x), list(itertools.islice(iter(x), 5)), first_label(x) in x)), ('hash-try', lambda x: hash(x)),
            ('setattr-try', lambda x: setattr(x, 'name', 'hacked')), ('setitem-try', lambda x: x.__setitem__(0, 99)), ('delattr-try', lambda x: delattr(x, 'name')),
            ('values-write-try', lambda x: x.values.__setitem__(0, 99))]
    return ops, not_driven


CHUNKS = 8


def scope(tier):
    return dict(seeds=SEEDS_QUICK if tier == 'quick' else SEEDS_ALL, depth2=DEPTH2_QUICK if tier == 'quick' else set(SEEDS_ALL))


def cases(tier):
    sc = scope(tier)
    for seed in sc['seeds']:
        for ch in range(CHUNKS):
            yield (seed, ch, 2 if seed in sc['depth2'] else 1)


def universe(tier):
    sc = scope(tier)
    A = caller_arrays()
    sizes = {}
    nd = {}
    for s in sc['seeds']:
        ops, not_driven = enumerate_ops(build_seed(s, A))
        sizes[s] = len(ops)
        nd[s] = not_driven
    return dict(seeds=list(sc['seeds']), depth2_seeds=sorted(sc['depth2']), operations_per_seed=sizes, not_driven=nd)


def materialise(r, depth=0):
    '''turn generators / iterators into lists so that everything an operation hands back can be inspected'''
    if depth > 3:
        return r
    if isinstance(r, (np.ndarray, sf.Series, sf.Frame, IndexBase, str, bytes, int, float, bool, type(None), np.generic, dict)):
        return r
    if isinstance(r, (tuple, list)):
        return [materialise(x, depth + 1) for x in r]
    if hasattr(r, '__next__') or inspect.isgenerator(r):
        return [materialise(x, depth + 1) for x in itertools.islice(r, 30)]
    return r


def collect_arrays(r, out, containers, depth=0):
    if depth > 4:
        return
    if isinstance(r, np.ndarray):
        out.append(r)
        if r.dtype == object and r.size <= 32:
            for x in r.flat:
                if isinstance(x, (np.ndarray, sf.Series, sf.Frame, IndexBase)):
                    collect_arrays(x, out, containers, depth + 1)
    elif isinstance(r, np.ma.MaskedArray):
        out.append(np.asarray(r.data))
    elif isinstance(r, (sf.Series, sf.Frame, IndexBase)):
        containers.append(r)
        out.extend(arrays(r))
    elif isinstance(r, (list, tuple)):
        for x in r:
            collect_arrays(x, out, containers, depth + 1)
    elif isinstance(r, dict):
        for x in r.values():
            collect_arrays(x, out, containers, depth + 1)


def check_after(ctx, tag, opname, result, existing, caller, info):
    '''invariants (i)-(iii) after one transition.  existing: list of (container, snapshot)'''
    ok = True
    for cont, s0 in existing:
        try:
            s1 = snap(cont)
        except Exception as e:
            ctx.violation(f'{tag}|{opname}|existing-container-unusable-{type(e).__name__}', **info)
            return False, []
        if s1 != s0:
            ctx.violation(f'{tag}|{opname}|existing-container-changed', **info, container=type(cont).__name__)
            return False, []
        # what the snapshot does not read: label -> position lookups and membership on every hierarchical axis (they go through the level tree, not the arrays)
        for ax in ([cont] if isinstance(cont, IndexBase) else [getattr(cont, 'index', None), getattr(cont, 'columns', None)]):
            if isinstance(ax, sf.IndexHierarchy) and len(ax) <= 12:
                try:
                    labs_ = [tuple(t) for t in ax]      # the labels as the axis itself presents them (NOT .values.tolist(): that turns a datetime64 label into a date object, which a plain Index of datetime64 does not look up)
                    pos_ = [ax.loc_to_iloc(t) for t in labs_]
                    ok_ = pos_ == list(range(len(labs_))) and all(t in ax for t in labs_)
                except Exception:
                    ok_ = False
                if not ok_:
                    ctx.violation(f'{tag}|{opname}|existing-container-lookups-changed', **info, container=type(cont).__name__)
                    return False, []
    arrs, conts = [], []
    collect_arrays(result, arrs, conts)
    for cont, _ in existing:
        arrs.extend(arrays(cont))
    seen = set()
    for a in arrs:
        if id(a) in seen:
            continue
        seen.add(id(a))
        if isinstance(a, np.ma.MaskedArray):
            continue
        if a.flags.writeable and a.dtype == object and a.size and all(type(x).__name__.startswith('IndexLevel') for x in a.flat):
            continue   # the per-level array of child IndexLevel nodes: structure, not label / value data, and not reachable through any public accessor
        if a.flags.writeable:
            cls = opname.split('(')[0]
            ctx.violation(f'{tag}|{cls}|writeable-array-obtainable', **info, dtype=str(a.dtype), shape=a.shape, shares_with_container=any(
                np.may_share_memory(a, b) for cont, _ in existing for b in arrays(cont) if b is not a))
            ok = False
            break
        for cname, ca in caller.items():
            if a.size and ca.size and np.may_share_memory(a, ca) and np.shares_memory(a, ca):
                ctx.violation(f'{tag}|{opname.split("(")[0]}|array-shares-memory-with-caller-input', **info, caller_array=cname)
                ok = False
                break
        if not ok:
            break
    return ok, conts


def run_case(case, ctx):
    seed_name, chunk, depth = case
    caller = caller_arrays()
    grow = None
    if seed_name in GO_SEEDS:
        seed, grow, new_label, labels_of_seed = GO_SEEDS[seed_name](caller)
    else:
        seed = build_seed(seed_name, caller)
    s0 = snap(seed)
    info0 = dict(seed=seed_name)
    ops, not_driven = enumerate_ops(seed)
    ctx.state((type(seed).__name__, repr(s0)))
    # (iii)/(ii) on the freshly built seed, and (iv): the caller writes into every array it supplied
    ok, _ = check_after(ctx, type(seed).__name__, 'construct:' + seed_name, seed, [(seed, s0)], caller, info0)
    for k, a in caller.items():
        if not a.flags.writeable:
            # the caller's own array must stay the caller's: a container that keeps it (frozen in place) instead of a copy has taken it over
            ctx.violation(f'{seed_name}|caller-array-frozen-in-place', **info0, array=k)
            return
        if a.dtype == object:
            a[0] = 'HACK'
        elif a.dtype.kind in 'iuf':
            a[...] = 77
        elif a.dtype.kind == 'U':
            a[...] = 'W'
        elif a.dtype.kind == 'M':
            a[...] = np.datetime64('1999-09-09')
        elif a.dtype.kind == 'b':
            a[...] = False
        elif a.dtype.kind == 'V':
            for fld in a.dtype.names:
                a[fld][...] = 77 if a.dtype[fld].kind in 'iuf' else 'W'
    ctx.transition()
    if snap(seed) != s0:
        ctx.violation(f'{seed_name}|caller-write-visible-through-container', **info0)
        return
    if grow is not None:
        # the grow-only object the seed was built from grows: nothing observable through the seed may change, including membership and lookups
        grow()
        ctx.transition()
        ix = labels_of_seed(seed)
        try:
            known = new_label in ix
            try:
                ix.loc_to_iloc(new_label)
                found = True
            except Exception:
                found = False
        except Exception as e:
            ctx.violation(f'{seed_name}|seed-unusable-after-source-grew-{type(e).__name__}', **info0)
            return
        if snap(seed) != s0 or known or found:
            ctx.violation(f'{seed_name}|growth-of-the-source-visible-through-the-static-container', **info0, snapshot_changed=snap(seed) != s0, label_known=known, label_found=found)
            return
    pool = {}
    mine = [op for i, op in enumerate(ops) if i % CHUNKS == chunk]
    for opname, fn in mine:
        ctx.transition()
        info = dict(seed=seed_name, operation=opname)
        ARG_ARRAYS.clear()
        try:
            r = materialise(fn(seed))
            err = None
        except Exception as e:
            r, err = None, type(e).__name__
        ctx.outcome('raises' if err else 'ok')
        ok, conts = check_after(ctx, type(seed).__name__, opname, r, [(seed, s0)], dict(caller, **ARG_ARRAYS), info)
        if not ok:
            continue
        if isinstance(r, list) and len(r) == 2 and isinstance(r[0], str) and r[0] == 'ROUNDTRIP':
            try:
                if snap(r[1]) != s0:
                    ctx.violation(f'{seed_name}|{opname}|round-trip-changes-content', **info)
            except Exception as e:
                ctx.violation(f'{seed_name}|{opname}|round-trip-unusable-{type(e).__name__}', **info)
        if conts or isinstance(r, np.ndarray):
            ctx.nontriv((seed_name, opname))
        for c in conts:
            if isinstance(c, (sf.FrameGO, sf.IndexGO, sf.IndexHierarchyGO)):
                continue
            try:
                key = (type(c).__name__, repr(snap(c)))
            except Exception:
                continue
            if key not in pool and len(pool) < 60:
                pool[key] = (c, opname)
                ctx.state(key)
            elif key not in pool and depth >= 2:
                ctx.count('cap-reached:distinct-derived-containers-beyond-60-not-taken-to-depth-2')
    if depth >= 2:
        for key, (c, via) in pool.items():
            cs = snap(c)
            ops2, _ = enumerate_ops(c)
            for opname, fn in ops2:
                ctx.transition()
                info = dict(seed=seed_name, derived_by=via, derived_class=type(c).__name__, operation=opname)
                if os.environ.get('C01_TRACE'):
                    print('TRACE', seed_name, via, opname, flush=True)
                ARG_ARRAYS.clear()
                try:
                    r = materialise(fn(c))
                except Exception:
                    r = None
                ok, conts = check_after(ctx, type(c).__name__, opname, r, [(seed, s0), (c, cs)], dict(caller, **ARG_ARRAYS), info)
                if ok and conts:
                    ctx.nontriv((seed_name, key[0], via, opname))
    ctx.extra['not_driven_ops'] = max(ctx.extra.get('not_driven_ops', 0), len(not_driven))
    ctx.sample({'seed': seed_name, 'chunk': chunk, 'operations_in_menu': len(ops), 'derived_containers': len(pool), 'depth': depth, 'not_driven': not_driven[:10]}, limit=1)
