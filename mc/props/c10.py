"""C10 equals is a content equivalence; HE variants honour the hash contract.

Mode P.  For each container kind a base container and its single-point (and a
few two-point) variants are built from *descriptors*; for each of the 16 option
vectors the full N x N matrix of real `equals` answers is computed and compared
with the reference predicate evaluated on the descriptors (written from the
statement), then reflexivity / symmetry / transitivity are checked on the real
matrix itself.  HE kinds additionally check ==, !=, hash, set and dict use.
"""
import itertools

import numpy as np

import static_frame as sf
from mc import universe as U

PROPERTY_ID = 'C10'
MODE = 'P (product enumeration: kind x option vector -> full pair matrix)'
RULE = ('case = (container kind, compare_name, compare_dtype, compare_class, skipna); every ordered pair of the '
        "kind's variant list is evaluated with the real equals() and with the reference predicate on descriptors; "
        'non-trivial = ordered pair of distinct variants (a is not b), counted by hashing (kind, options, i, j); '
        'states = distinct variant descriptors, transitions = equals/==/hash evaluations')
ASSUMPTIONS = [
    'element equality of the reference is Python == on the supplied scalars; alphabets avoid pairs where NumPy and Python == disagree (str vs bytes, ints above 2**53 vs floats)',
    'None is an ordinary value (None == None); NaN and NaT are the missing values governed by skipna',
    'NumPy array comparison and hashing of Python tuples are trusted',
]
EXHAUSTIVE = True

NAN = float('nan')
NAT = np.datetime64('NaT')


# --------------------------------------------------------------------------
# descriptors (plain tuples / dicts of Python values)

def I(labels, dtype=None, cls='Index', name=None):
    return {'k': 'I', 'cls': cls, 'name': name, 'labels': tuple(labels), 'dtype': dtype}


def IH(tuples, cls='IndexHierarchy', name=None, dtypes=None):
    return {'k': 'IH', 'cls': cls, 'name': name, 'labels': tuple(tuple(t) for t in tuples), 'dtypes': dtypes}


def S(values, dtype, index, cls='Series', name=None):
    return {'k': 'S', 'cls': cls, 'name': name, 'values': tuple(values), 'dtype': dtype, 'index': index}


def F(cols, index, columns, cls='Frame', name=None, layout='fine'):
    # cols: tuple of (dtype, values)
    return {'k': 'F', 'cls': cls, 'name': name, 'cols': tuple((d, tuple(v)) for d, v in cols),
            'index': index, 'columns': columns, 'layout': layout}


def B(frames, index, name=None):
    return {'k': 'B', 'cls': 'Bus', 'name': name, 'frames': tuple(frames), 'index': index}


def arr(values, dtype):
    if dtype == 'object':
        a = np.empty(len(values), dtype=object)
        for i, v in enumerate(values):
            a[i] = v
    else:
        a = np.array(list(values), dtype=dtype)
    a.flags.writeable = False
    return a


def build(d):
    k = d['k']
    if k == 'I':
        cls = getattr(sf, d['cls'])
        if d['dtype'] is None or d['cls'] in ('IndexDate', 'IndexYear'):
            return cls(d['labels'], name=d['name'])
        return cls(arr(d['labels'], d['dtype']), name=d['name'])
    if k == 'IH':
        cls = getattr(sf, d['cls'])
        if d.get('route') == 'product':
            # same labels, built so that sibling branches share one Index object
            outs = list(dict.fromkeys(t[0] for t in d['labels']))
            ins = list(dict.fromkeys(t[1] for t in d['labels']))
            assert [(o, i) for o in outs for i in ins] == [tuple(t) for t in d['labels']]
            return cls.from_product(outs, ins, name=d['name'])
        return cls.from_labels(d['labels'], name=d['name'])
    if k == 'S':
        cls = getattr(sf, d['cls'])
        return cls(arr(d['values'], d['dtype']), index=build(d['index']), name=d['name'])
    if k == 'F':
        cls = getattr(sf, d['cls'])
        cols = [arr(v, dt) for dt, v in d['cols']]
        n = len(d['index']['labels'])
        if d['layout'] == 'fine':
            blocks = cols
        elif d['layout'] == 'single2d':
            blocks = [c.reshape(n, 1) for c in cols]
        else:  # coarse: merge adjacent equal dtypes
            blocks = []
            run = []
            for c in cols:
                if run and run[0].dtype != c.dtype:
                    blocks.append(run)
                    run = []
                run.append(c)
            if run:
                blocks.append(run)
            blocks = [r[0] if len(r) == 1 else np.column_stack(r) for r in blocks]
        for b in blocks:
            b.flags.writeable = False
        return U.frame_from_blocks(blocks, n, index=build(d['index']), columns=build(d['columns']), cls=cls, name=d['name'])
    if k == 'B':
        return sf.Bus.from_frames([build(f) for f in d['frames']], name=d['name']) if d['index'] is None else \
            sf.Bus(sf.Series([build(f) for f in d['frames']], index=build(d['index']), dtype=object, name=d['name']))
    raise ValueError(k)


# --------------------------------------------------------------------------
# reference predicate (from the statement)

def is_nan(v):
    return isinstance(v, float) and v != v


def is_nat(v):
    return isinstance(v, np.datetime64) and np.isnat(v)


def veq(x, y, skipna):
    if (is_nan(x) and is_nan(y)) or (is_nat(x) and is_nat(y)):
        return skipna
    if is_nan(x) or is_nan(y) or is_nat(x) or is_nat(y):
        return False
    if isinstance(x, tuple) != isinstance(y, tuple):
        return False
    if isinstance(x, str) != isinstance(y, str):
        return False
    return bool(x == y)


def ref_equals(a, b, name, dtype, klass, skipna):
    if a['k'] != b['k']:
        return False
    if klass and a['cls'] != b['cls']:
        return False
    if name and a['name'] != b['name']:
        return False
    k = a['k']
    if k == 'I':
        if len(a['labels']) != len(b['labels']):
            return False
        if dtype and a['dtype'] != b['dtype']:
            return False
        return all(veq(x, y, skipna) for x, y in zip(a['labels'], b['labels']))
    if k == 'IH':
        if len(a['labels']) != len(b['labels']) or (a['labels'] and len(a['labels'][0]) != len(b['labels'][0])):
            return False
        if dtype and a['dtypes'] != b['dtypes']:
            return False
        return all(veq(x, y, skipna) for ta, tb in zip(a['labels'], b['labels']) for x, y in zip(ta, tb))
    if k == 'S':
        if len(a['values']) != len(b['values']):
            return False
        if dtype and a['dtype'] != b['dtype']:
            return False
        if not all(veq(x, y, skipna) for x, y in zip(a['values'], b['values'])):
            return False
        return ref_equals(a['index'], b['index'], name, dtype, klass, skipna)
    if k == 'F':
        if len(a['cols']) != len(b['cols']) or len(a['index']['labels']) != len(b['index']['labels']):
            return False
        if dtype and tuple(d for d, _ in a['cols']) != tuple(d for d, _ in b['cols']):
            return False
        for (_, va), (_, vb) in zip(a['cols'], b['cols']):
            if not all(veq(x, y, skipna) for x, y in zip(va, vb)):
                return False
        return (ref_equals(a['index'], b['index'], name, dtype, klass, skipna)
                and ref_equals(a['columns'], b['columns'], name, dtype, klass, skipna))
    if k == 'B':
        if len(a['frames']) != len(b['frames']):
            return False
        if not ref_equals(a['index'], b['index'], name, dtype, klass, skipna):
            return False
        return all(ref_equals(x, y, name, dtype, klass, skipna) for x, y in zip(a['frames'], b['frames']))
    raise ValueError(k)


# --------------------------------------------------------------------------
# variants

def rep(d, **kw):
    n = dict(d)
    n.update(kw)
    return n


def tup_set(t, i, v):
    t = list(t)
    t[i] = v
    return tuple(t)


def index_variants(tier):
    base = I(('a', 'b', 'c'), '<U1')
    out = [base, rep(base)]  # an equal twin
    for i in range(3):
        out.append(rep(base, labels=tup_set(base['labels'], i, 'z')))
    out.append(rep(base, labels=('b', 'a', 'c')))
    out.append(rep(base, labels=('a', 'b')))
    out.append(rep(base, labels=()))
    out.append(rep(base, name='n'))
    out.append(rep(base, name='m'))
    out.append(rep(base, name='shared', share='rename'))      # derived from the base object itself: shares its label array
    out.append(rep(base, share='copy'))
    out.append(rep(base, cls='IndexGO'))
    out.append(rep(base, dtype='<U2'))
    out.append(rep(base, dtype='object'))
    out.append(rep(base, dtype='object', labels=('a', 'b', 1)))
    ib = I((1, 2, 3), 'int64')
    out += [ib, rep(ib, dtype='float64', labels=(1.0, 2.0, 3.0)), rep(ib, dtype='object'),
            rep(ib, labels=(1, 2, 4)), rep(ib, dtype='int32'), rep(ib, cls='IndexGO', name='n')]
    d = lambda s: np.datetime64(s)
    db = I((d('2020-01-01'), d('2020-01-02')), 'datetime64[D]', cls='IndexDate')
    out += [db, rep(db, cls='Index'), rep(db, labels=(d('2020-01-01'), d('2020-01-03'))),
            rep(db, cls='IndexDateGO'), rep(db, name='n'),
            # the same instants held at another resolution
            rep(db, dtype='datetime64[s]', cls='IndexSecond'), rep(db, dtype='datetime64[ns]', cls='IndexNanosecond')]
    if tier == 'thorough':
        fb = I((1.5, 2.5), 'float64')
        out += [fb, rep(fb, labels=(1.5, 3.5)), rep(fb, dtype='object'), rep(fb, dtype='float32'),
                rep(base, labels=('a', 'b', 'c', 'd')), rep(base, labels=('c', 'b', 'a'))]
    return out


def ih_variants(tier):
    dts = ('<U1', 'int64')
    base = IH((('a', 1), ('a', 2), ('b', 1), ('b', 2)), dtypes=dts)
    out = [base, rep(base)]
    out.append(rep(base, labels=(('a', 1), ('a', 2), ('b', 1), ('b', 3))))
    out.append(rep(base, labels=(('a', 1), ('a', 2), ('c', 1), ('c', 2))))
    out.append(rep(base, labels=(('a', 1), ('a', 3), ('b', 1), ('b', 2))))
    out.append(rep(base, labels=(('b', 1), ('b', 2), ('a', 1), ('a', 2))))
    out.append(rep(base, labels=(('a', 2), ('a', 1), ('b', 1), ('b', 2))))
    out.append(rep(base, labels=(('a', 1), ('a', 2), ('b', 1))))
    out.append(rep(base, labels=(('a', 1), ('a', 2), ('a', 3), ('b', 2))))
    out.append(rep(base, name='n'))
    out.append(rep(base, name=('x', 'y')))
    out.append(rep(base, name='shared', share='rename'))
    out.append(rep(base, cls='IndexHierarchyGO'))
    # grow-only twins whose cached arrays are STALE when compared: arrays built, then grown to the same labels (or to other labels), nothing read since
    out.append(rep(base, share='realised'))      # arrays already built when compared (the others are compared before any array is built)
    out.append(rep(base, cls='IndexHierarchyGO', share='go-stale-cache'))
    out.append(rep(base, cls='IndexHierarchyGO', share='go-copy-then-source-grew'))    # a copy of a grow-only hierarchy whose source grew afterwards
    out.append(rep(base, cls='IndexHierarchyGO', labels=(('a', 1), ('a', 2), ('b', 1), ('b', 3)), share='go-stale-cache'))
    out.append(rep(base, route='product'))
    out.append(rep(base, route='product', name='n'))
    out.append(rep(base, labels=(('b', 1), ('b', 2), ('a', 1), ('a', 2)), route='product'))
    out.append(rep(base, labels=(('a', 1.0), ('a', 2.0), ('b', 1.0), ('b', 2.0)), dtypes=('<U1', 'float64')))
    out.append(rep(base, labels=(('a', 1, 'x'), ('a', 2, 'x'), ('b', 1, 'x'), ('b', 2, 'x')), dtypes=('<U1', 'int64', '<U1')))
    return out


def series_variants(tier):
    ix = I(('a', 'b', 'c'), '<U1')
    base = S((1.5, NAN, 3.0), 'float64', ix, name='n')
    out = [base, rep(base)]
    for i in range(3):
        out.append(rep(base, values=tup_set(base['values'], i, 9.0)))
    out.append(rep(base, values=(1.5, 2.0, 3.0)))        # NaN only on one side
    out.append(rep(base, values=(NAN, NAN, 3.0)))        # extra NaN
    out.append(rep(base, values=(1.5, NAN, NAN)))
    out.append(rep(base, values=(1.5, NAN)))             # shorter (index too)
    out[-1]['index'] = I(('a', 'b'), '<U1')
    out.append(rep(base, name='m'))
    out.append(rep(base, name=None))
    out.append(rep(base, name='shared', share='rename'))
    out.append(rep(base, index=I(('a', 'b', 'c'), '<U1', name='shared-ix'), share='index-rename'))
    out.append(rep(base, cls='SeriesHE'))
    # labelled by the same instants at day / second / nanosecond resolution (equal by ==, so the hashes must agree)
    dd_ = lambda s_: np.datetime64(s_)
    dix = I((dd_('2020-01-01'), dd_('2020-01-02'), dd_('2020-01-03')), 'datetime64[D]', cls='IndexDate')
    out += [rep(base, index=dix), rep(base, index=rep(dix, dtype='datetime64[s]', cls='IndexSecond')), rep(base, index=rep(dix, dtype='datetime64[ns]', cls='IndexNanosecond'))]
    # two views into ONE parent buffer that start at the same address and differ in stride: the first row and the first column of a square block
    sq_ix = I(('a', 'b', 'c'), '<U1')
    out.append(S((1, 2, 3), 'int64', sq_ix, name='a') | {'share': 'square-row'})
    out.append(S((1, 4, 7), 'int64', sq_ix, name='a') | {'share': 'square-col'})
    out.append(rep(base, dtype='object'))
    out.append(rep(base, dtype='object', values=(1.5, None, 3.0)))
    out.append(rep(base, dtype='object', values=(1.5, NAN, 'x')))
    out.append(rep(base, index=I(('a', 'b', 'z'), '<U1')))
    out.append(rep(base, index=I(('b', 'a', 'c'), '<U1')))
    out.append(rep(base, index=I(('a', 'b', 'c'), '<U1', name='q')))
    out.append(rep(base, index=I(('a', 'b', 'c'), 'object')))
    out.append(rep(base, index=I((0, 1, 2), 'int64')))
    ib = S((1, 2, 3), 'int64', ix, name='n')
    out += [ib, rep(ib, dtype='float64', values=(1.0, 2.0, 3.0)), rep(ib, values=(1, 2, 4)),
            rep(ib, dtype='bool', values=(True, True, True)), rep(ib, dtype='int8')]
    d = lambda s: np.datetime64(s)
    db = S((d('2020-01-01'), NAT, d('2020-01-03')), 'datetime64[D]', ix, name='n')
    out += [db, rep(db, values=(d('2020-01-01'), d('2020-01-02'), d('2020-01-03'))),
            rep(db, values=(NAT, NAT, d('2020-01-03')))]
    sb = S(('x', 'y', 'z'), '<U1', ix, name='n')
    out += [sb, rep(sb, dtype='<U3'), rep(sb, values=('x', 'y', 'zz'), dtype='<U2'), rep(sb, dtype='object')]
    if True:     # hierarchical index: both tiers (HE hashing used to fail on it)
        hx = IH((('a', 1), ('a', 2), ('b', 1)), dtypes=('<U1', 'int64'))
        out += [rep(base, index=hx), rep(base, index=rep(hx, labels=(('a', 1), ('a', 2), ('b', 2)))),
                rep(base, index=rep(hx, name='h')), rep(base, index=hx, values=(1.5, NAN, 4.0))]
    return out


def frame_variants(tier, cls='Frame'):
    ix = I(('r0', 'r1'), '<U2')
    cx = I(('a', 'b', 'c', 'd'), '<U1')
    cols = (('int64', (1, 2)), ('int64', (3, 4)), ('float64', (1.5, NAN)), ('<U1', ('x', 'y')))
    base = F(cols, ix, cx, name='n', cls=cls)
    out = [base, rep(base), rep(base, layout='coarse'), rep(base, layout='single2d')]

    def setcell(d, j, i, v, dtype=None):
        c = list(d['cols'])
        c[j] = (dtype or c[j][0], tup_set(c[j][1], i, v))
        return rep(d, cols=tuple(c))
    out.append(setcell(base, 0, 0, 9))
    out.append(setcell(base, 1, 1, 9))
    out.append(setcell(base, 1, 1, 9) | {'layout': 'coarse'})
    out.append(setcell(base, 2, 0, 9.5))
    out.append(setcell(base, 2, 1, 2.5))            # NaN on one side only
    out.append(setcell(base, 2, 1, 2.5) | {'layout': 'single2d'})
    out.append(setcell(base, 2, 0, NAN))            # a second NaN
    out.append(setcell(base, 3, 0, 'z'))
    out.append(setcell(base, 0, 0, 1.0, 'float64'))  # dtype only (values equal)
    out.append(setcell(base, 0, 0, 1, 'object'))
    out.append(setcell(base, 2, 1, None, 'object'))
    out.append(setcell(base, 3, 0, 'x', '<U2'))
    out.append(rep(base, name='m'))
    out.append(rep(base, name=None))
    out.append(rep(base, name='shared', share='rename'))
    out.append(rep(base, index=I(('r0', 'r1'), '<U2', name='shared-ix'), share='index-rename'))
    dd_ = lambda s_: np.datetime64(s_)
    dix2 = I((dd_('2020-01-01'), dd_('2020-01-02')), 'datetime64[D]', cls='IndexDate')
    out += [rep(base, index=dix2), rep(base, index=rep(dix2, dtype='datetime64[s]', cls='IndexSecond')), rep(base, index=rep(dix2, dtype='datetime64[ns]', cls='IndexNanosecond'))]
    # two views of ONE read-only 2-D array that start at the same address and step differently (rows 0,1 and rows 0,2)
    cx3 = I(('a', 'b', 'c'), '<U1')
    out.append(F((('int64', (0, 3)), ('int64', (1, 4)), ('int64', (2, 5))), ix, cx3, name='n', cls=cls, layout='single2d') | {'share': 'strided-a'})
    out.append(F((('int64', (0, 6)), ('int64', (1, 7)), ('int64', (2, 8))), ix, cx3, name='n', cls=cls, layout='single2d') | {'share': 'strided-b'})
    out.append(rep(base, columns=I(('a', 'b', 'c', 'd'), '<U1', name='shared-cx'), share='columns-rename'))
    out.append(rep(base, cls='FrameGO' if cls == 'Frame' else 'Frame'))
    out.append(rep(base, cls='FrameHE' if cls == 'Frame' else 'FrameGO'))
    out.append(rep(base, index=I(('r0', 'rX'), '<U2')))
    out.append(rep(base, index=I(('r1', 'r0'), '<U2')))
    out.append(rep(base, index=I(('r0', 'r1'), '<U2', name='q')))
    out.append(rep(base, index=I(('r0', 'r1'), 'object')))
    out.append(rep(base, columns=I(('a', 'b', 'c', 'z'), '<U1')))
    out.append(rep(base, columns=I(('b', 'a', 'c', 'd'), '<U1')))
    out.append(rep(base, columns=I(('a', 'b', 'c', 'd'), '<U1', name='q')))
    out.append(rep(base, cols=cols[:3], columns=I(('a', 'b', 'c'), '<U1')))
    out.append(rep(base, cols=tuple((d, v[:1]) for d, v in cols), index=I(('r0',), '<U2')))
    # NaN in the same place on both sides but other column differing; NaT column
    d = lambda s: np.datetime64(s)
    cols2 = (('datetime64[D]', (d('2020-01-01'), NAT)), ('float64', (NAN, NAN)))
    cx2 = I(('a', 'b'), '<U1')
    b2 = F(cols2, ix, cx2, name='n', cls=cls)
    out += [b2, rep(b2), rep(b2, layout='single2d'),
            rep(b2, cols=(('datetime64[D]', (d('2020-01-01'), d('2020-01-02'))), ('float64', (NAN, NAN)))),
            rep(b2, cols=(('datetime64[D]', (d('2020-01-01'), NAT)), ('float64', (NAN, 1.0)))),
            rep(b2, cols=(('datetime64[D]', (d('2020-01-01'), NAT)), ('float64', (1.0, NAN)))),
            rep(b2, cols=(('datetime64[D]', (NAT, NAT)), ('float64', (NAN, NAN))))]
    hx = IH((('a', 1), ('a', 2), ('b', 1), ('b', 2)), dtypes=('<U1', 'int64'))
    out += [rep(base, columns=hx), rep(base, columns=rep(hx, labels=(('a', 1), ('a', 2), ('b', 1), ('b', 3)))),
            rep(base, columns=hx, layout='coarse'), rep(base, columns=rep(hx, name='h'))]
    if tier == 'thorough':
        for j in range(4):
            for i in range(2):
                v = {0: 7, 1: 7, 2: 7.5, 3: 'q'}[j]
                out.append(setcell(base, j, i, v) | {'layout': 'coarse'})
    return out


def bus_variants(tier):
    ix = I(('r0', 'r1'), '<U2')
    f1 = F((('int64', (1, 2)), ('float64', (1.5, NAN))), ix, I(('a', 'b'), '<U1'), name='f1')
    f2 = F((('<U1', ('x', 'y')),), ix, I(('c',), '<U1'), name='f2')
    bi = I(('f1', 'f2'), '<U2')
    base = B((f1, f2), bi, name='bus')
    out = [base, rep(base)]
    f1b = rep(f1, cols=(('int64', (1, 3)), ('float64', (1.5, NAN))))
    f1c = rep(f1, cols=(('int64', (1, 2)), ('float64', (1.5, 2.5))))
    f1d = rep(f1, layout='single2d')
    f1e = rep(f1, name='other')
    f1f = rep(f1, cols=(('float64', (1.0, 2.0)), ('float64', (1.5, NAN))))
    f1g = rep(f1, cls='FrameGO')
    for f in (f1b, f1c, f1d, f1e, f1f, f1g):
        out.append(rep(base, frames=(f, f2)))
    out.append(rep(base, frames=(f2, f1)))
    out.append(rep(base, frames=(f1,), index=I(('f1',), '<U2')))
    out.append(rep(base, index=I(('f1', 'fX'), '<U2')))
    out.append(rep(base, index=I(('f1', 'f2'), 'object')))
    out.append(rep(base, index=I(('f1', 'f2'), '<U2', name='q')))
    out.append(rep(base, name='other'))
    out.append(rep(base, name=None))
    for sh in ('store-lazy', 'store-partly-loaded', 'store-max-persist-1'):
        out.append(rep(base, share=sh))
    return out


KINDS = {
    'Index': index_variants,
    'IndexHierarchy': ih_variants,
    'Series': series_variants,
    'SeriesHE': lambda tier: [rep(d, cls={'Series': 'SeriesHE', 'SeriesHE': 'Series'}[d['cls']]) for d in series_variants(tier)],
    'Frame': frame_variants,
    'FrameHE': lambda tier: frame_variants(tier, cls='FrameHE'),
    'Bus': bus_variants,
}

OPTS = list(itertools.product((False, True), repeat=4))  # name, dtype, class, skipna
_CACHE = {}


def variants(kind, tier):
    key = (kind, tier)
    if key not in _CACHE:
        _CACHE[key] = KINDS[kind](tier)
    return _CACHE[key]


def cases(tier):
    for kind in KINDS:
        for o in OPTS:
            yield (kind, o, tier)


def universe(tier):
    return {'kinds': {k: len(variants(k, tier)) for k in KINDS}, 'option_vectors': len(OPTS)}


def dkey(d):
    return repr(sorted((k, repr(v)) for k, v in d.items()))


def run_case(case, ctx):
    kind, (name, dtype, klass, skipna), tier = case
    descs = variants(kind, tier)
    base_obj = build(descs[0])
    objs = []
    for di, d in enumerate(descs):
        sh = d.get('share')
        if di == 0:
            objs.append(base_obj)
        elif sh == 'rename':
            objs.append(base_obj.rename(d['name']))
        elif sh == 'copy':
            objs.append(base_obj.copy())
        elif sh == 'index-rename':
            objs.append(base_obj.relabel(base_obj.index.rename(d['index']['name'])))
        elif sh == 'columns-rename':
            objs.append(base_obj.relabel(columns=base_obj.columns.rename(d['columns']['name'])))
        elif sh == 'realised':
            o_ = build(d)
            o_.values
            objs.append(o_)
        elif sh == 'go-copy-then-source-grew':
            src_ = sf.IndexHierarchyGO.from_labels(d['labels'], name=d['name'])
            src_.values
            cp_ = src_.copy()
            src_.append((d['labels'][-1][0], 99))      # under an outer label that exists
            _CACHE.setdefault('keepalive', []).append(src_)
            objs.append(cp_)
        elif sh == 'go-stale-cache':
            g = sf.IndexHierarchyGO.from_labels(d['labels'][:-1], name=d['name'])
            g.values                      # the cache now describes three labels
            g.append(d['labels'][-1])     # ... and is stale
            objs.append(g)
        elif sh in ('strided-a', 'strided-b'):
            if 'strided' not in _CACHE:
                big = np.arange(12, dtype=np.int64).reshape(4, 3)
                big.flags.writeable = False
                _CACHE['strided'] = big
            view = _CACHE['strided'][:2] if sh == 'strided-a' else _CACHE['strided'][::2]
            objs.append(getattr(sf, d['cls'])(view, index=build(d['index']), columns=build(d['columns']), name=d['name']))
        elif sh in ('square-row', 'square-col'):
            if 'square' not in _CACHE:
                sq = np.arange(1, 10, dtype=np.int64).reshape(3, 3)
                sq.flags.writeable = False
                _CACHE['square'] = sf.Frame(sq, index=('a', 'b', 'c'), columns=('a', 'b', 'c'))
            v = _CACHE['square'].iloc[0] if sh == 'square-row' else _CACHE['square'].iloc[:, 0]
            objs.append(v if d['cls'] == 'Series' else sf.SeriesHE(v.values, index=v.index, name=v.name, own_index=True))
        elif sh in ('store-lazy', 'store-partly-loaded', 'store-max-persist-1'):
            # the same Frames read back from a store: not loaded / one loaded / bounded persistence
            import os
            from mc.props.c17 import workdir
            path = os.path.join(workdir(), 'c10_bus_%d.zip' % os.getpid())
            if not os.path.exists(path):
                base_obj.to_zip_pickle(path)
            b = sf.Bus.from_zip_pickle(path, max_persist=1 if sh == 'store-max-persist-1' else None).rename(d['name'])
            if sh == 'store-partly-loaded':
                b.iloc[0]
            objs.append(b)
        else:
            objs.append(build(d))
    n = len(objs)
    for d in descs:
        ctx.state((kind, dkey(d)))
    real = [[None] * n for _ in range(n)]
    for i in range(n):
        for j in range(n):
            r = objs[i].equals(objs[j], compare_name=name, compare_dtype=dtype, compare_class=klass, skipna=skipna)
            ctx.transition()
            real[i][j] = r
            if i != j:
                ctx.nontriv((kind, case[1], i, j))
            if type(r) is not bool:
                ctx.violation(f'{kind}|equals-returns-non-bool|{type(r).__name__}', i=descs[i], j=descs[j])
                r = bool(r)
                real[i][j] = r
            # the statement demands reflexivity outright, so a container compared with itself is equal even when it
            # holds NaN and skipna is off; a distinct twin follows the missing-value rule
            exp = True if i == j else ref_equals(descs[i], descs[j], name, dtype, klass, skipna)
            ctx.outcome(f'{kind}:{r}')
            if r != exp:
                diff = [k for k in set(descs[i]) | set(descs[j]) if descs[i].get(k) != descs[j].get(k)] if i != j else ['self']
                ctx.violation(f'{kind}|equals-vs-reference|got={r}|differs-in={"+".join(sorted(diff))}|opts=n{int(name)}d{int(dtype)}c{int(klass)}s{int(skipna)}',
                              a=descs[i], b=descs[j], observed=r, expected=exp)
    # algebraic laws on the real matrix
    for i in range(n):
        if not real[i][i]:
            # a container holding NaN is not equal to itself without skipna only if identity short-cut is absent: the
            # statement demands reflexivity outright
            ctx.violation(f'{kind}|not-reflexive', a=descs[i], opts=case[1])
        for j in range(n):
            if real[i][j] != real[j][i]:
                ctx.violation(f'{kind}|not-symmetric', a=descs[i], b=descs[j], ab=real[i][j], ba=real[j][i], opts=case[1])
    for i in range(n):
        for j in range(n):
            if real[i][j]:
                for k in range(n):
                    if real[j][k] and not real[i][k]:
                        ctx.violation(f'{kind}|not-transitive', a=descs[i], b=descs[j], c=descs[k], opts=case[1])
    # reflexivity on a *distinct but identical* object (no id() short cut) is covered by the twin variant (index 1)

    if kind in ('SeriesHE', 'FrameHE'):
        he = [(i, o) for i, o in enumerate(objs) if type(o).__name__ in ('SeriesHE', 'FrameHE')]
        if case[1] == OPTS[0]:  # HE operators take no options: run once per kind
            for i, a in he:
                for j, b in enumerate(objs):
                    e1 = a == b
                    e2 = a != b
                    ctx.transition(2)
                    if type(e1) is not bool or type(e2) is not bool:
                        ctx.violation(f'{kind}|eq-ne-not-bool', a=descs[i], b=descs[j])
                        continue
                    if e1 == e2:
                        ctx.violation(f'{kind}|eq-ne-inconsistent', a=descs[i], b=descs[j])
                    # consistent with equals: == is equals with the documented option set (name compared, skipna)
                    exp = ref_equals(descs[i], descs[j], True, False, False, True)
                    if e1 != exp:
                        ctx.violation(f'{kind}|eq-vs-equals', a=descs[i], b=descs[j], observed=e1, expected=exp)
                    if type(b).__name__ in ('SeriesHE', 'FrameHE'):
                        if e1 != (b == a):
                            ctx.violation(f'{kind}|eq-not-symmetric', a=descs[i], b=descs[j])
                        if e1 and hash(a) != hash(b):
                            ctx.violation(f'{kind}|equal-but-hash-differs', a=descs[i], b=descs[j])
                        ctx.transition(2)
                        if (b in {a}) != e1 or (({a: 1}.get(b) == 1) != e1):
                            ctx.violation(f'{kind}|set-dict-membership', a=descs[i], b=descs[j], eq=e1)
            # a set of all HE variants has exactly as many members as reference equivalence classes
            classes = []
            for i, a in he:
                if not any(ref_equals(descs[i], descs[c], True, False, False, True) for c in classes):
                    classes.append(i)
            got = len({a for _, a in he})
            if got != len(classes):
                ctx.violation(f'{kind}|set-size', observed=got, expected=len(classes))
    ctx.sample({'kind': kind, 'options': dict(compare_name=name, compare_dtype=dtype, compare_class=klass, skipna=skipna),
                'variants': n, 'first_pair': [repr(descs[0])[:200], repr(descs[2])[:200]]}, limit=1)


