"""C12 Sorting permutes whole rows, orders the keys, and is stable.

Mode P.  Every key vector (with ties) of bounded length over small alphabets, for
1..3 key columns / index depths, both axes, ascending and descending, with and
without key functions and under several block layouts, is sorted by the real
implementation and compared with Python's stable `sorted` (descending = exact
reverse), row by row including labels; names / other-axis labels / dtypes must be
carried unchanged.
"""
import itertools
import math

import numpy as np

import static_frame as sf
from mc import universe as U
from mc.observe import columns_of, norm

PROPERTY_ID = 'C12'
MODE = 'P (product enumeration: key vectors x key columns x axis x direction x key function x layout)'
RULE = ('case = (family, alphabet, length, #keys, layout/route); inside a case every key vector over the alphabet is sorted '
        'ascending and descending by the real code and by the reference (Python stable sort, NaN last, descending = reverse); '
        'non-trivial = key vector with at least one tie or one inversion, counted once per (family, keys, direction, keyfunc); '
        'states = distinct input containers; transitions = sort calls compared')
ASSUMPTIONS = [
    'NaN keys order after every number (NumPy convention) and tie among themselves',
    "Python's sorted() is the stable-sort specification; tuple comparison is the lexicographic order for multi-key / hierarchical sorts",
    'default kind (mergesort) only: other kinds are not claimed stable by the statement',
]

NAN = float('nan')
ALPHA = {
    'int': (0, 1, 2),
    'neg': (-1, 0, 1),
    'nan': (0.5, NAN, -1.5),
    'str': ('b', 'a', 'ab'),
    'big': (2 ** 53 + 2, 2 ** 53, 2 ** 53 + 1),      # distinct as int64, tied if ever compared as float64
}
DT = {'int': 'int64', 'neg': 'int64', 'nan': 'float64', 'str': '<U2', 'big': 'int64'}


def k1(v):
    if isinstance(v, float) and math.isnan(v):
        return (1, 0)
    return (0, v)


def ref_order(keys, ascending=True):
    '''keys: list of key tuples (one per row).  Returns positions.'''
    order = sorted(range(len(keys)), key=lambda i: tuple(k1(v) for v in keys[i]))
    return order if ascending else order[::-1]


def scope(tier):
    if tier == 'quick':
        return dict(n1=5, n2=4, n3=3, ih_leaves=5)
    return dict(n1=6, n2=5, n3=3, ih_leaves=6)


KEYFUNCS = (None, 'neg_array', 'neg_container')


def cases(tier):
    sc = scope(tier)
    for alpha in ALPHA:
        if alpha == 'big':
            continue   # only meaningful next to a float key column (frame_values2)
        for n in range(0, sc['n1'] + 1):
            yield ('series_values', alpha, n)
            yield ('index_sort', alpha, n)
    def shards(size):
        k = max(1, size // 300)
        return [(i, k) for i in range(k)]
    for a1 in ('int', 'nan', 'str'):
        for n in range(1, sc['n1'] + 1):
            for li in range(3):
                for sh in shards(3 ** n):
                    yield ('frame_values1', a1, n, li, sh)
    for a1, a2 in (('int', 'int'), ('int', 'str'), ('nan', 'int'), ('str', 'neg'), ('nan', 'str'), ('big', 'nan')):
        for n in range(1, sc['n2'] + 1):
            for li in range(3):
                for axis in (1, 0):
                    if axis == 0 and a1 != a2:
                        continue
                    for sh in shards(3 ** (2 * n)):
                        yield ('frame_values2', a1, a2, n, li, axis, sh)
    for n in range(1, sc['n3'] + 1):
        for li in range(2):
            for sh in shards(3 ** (3 * n)):
                yield ('frame_values3', n, li, sh)
    for n in range(0, sc['n1'] + 1):
        yield ('label_sort', 'flat', n)
    for n in (2, 3, 4):
        yield ('grown_and_auto', n)
    for shape in ih_shapes(sc['ih_leaves']):
        yield ('label_sort', 'ih', shape)


def universe(tier):
    return dict(scope(tier), alphabets={k: [repr(x) for x in v] for k, v in ALPHA.items()}, keyfuncs=[str(k) for k in KEYFUNCS])


def ih_shapes(max_leaves):
    '''(depth, outer count, inner counts) for small trees.'''
    out = []
    for outer in (1, 2, 3):
        for inner in itertools.product((1, 2), repeat=outer):
            if sum(inner) <= max_leaves:
                out.append((2, inner))
    out.append((3, (2, 1)))
    out.append((3, (1, 2)))
    return out


def arr(vals, dtype):
    a = np.array(list(vals), dtype=dtype) if len(vals) else np.array([], dtype=dtype)
    a.flags.writeable = False
    return a


LABELS = ['q', 'c', 'x', 'a', 'm', 'b']


def keyfunc(kf, numeric):
    if kf is None:
        return None, lambda v: v
    if not numeric:
        # strings: key = reversed text (array form) / container of reversed text
        if kf == 'neg_array':
            return (lambda c: np.array([s[::-1] for s in c.values.tolist()]) if c.values.ndim == 1 else np.array([[s[::-1] for s in r] for r in c.values.tolist()])), (lambda v: v[::-1])
        return (lambda c: c.via_str[::-1] if False else c.__class__(np.array([s[::-1] for s in c.values.tolist()]), index=c.index)), (lambda v: v[::-1])
    if kf == 'neg_array':
        return (lambda c: -c.values), (lambda v: -v)
    return (lambda c: c * -1), (lambda v: -v)


def check_series(ctx, tag, res, exp_pairs, name, dtype, info):
    if not isinstance(res, sf.Series):
        ctx.violation(f'{tag}|type', **info, got=type(res).__name__)
        return
    got = [(norm(l), norm(v)) for l, v in zip(res.index.values.tolist(), res.values.tolist())]
    exp = [(norm(l), norm(v)) for l, v in exp_pairs]
    if got != exp:
        ctx.violation(f'{tag}|order', **info, got=got, expected=exp)
    elif res.name != name or str(res.values.dtype) != dtype:
        ctx.violation(f'{tag}|name-or-dtype', **info, got=(res.name, str(res.values.dtype)), expected=(name, dtype))


def run_series_values(case, ctx):
    _, alpha, n = case
    labels = LABELS[:n]
    for vec in itertools.product(ALPHA[alpha], repeat=n):
        s = sf.Series(arr(vec, DT[alpha]), index=labels, name='nm')
        ctx.state(('S', alpha, vec))
        nontrivial = len(set(map(repr, vec))) < n or list(vec) != [vec[i] for i in ref_order([(v,) for v in vec])]
        for kf in KEYFUNCS:
            if kf == 'neg_container' and alpha == 'str':
                continue
            f, pf = keyfunc(kf, alpha != 'str')
            for asc in (True, False):
                ctx.transition()
                if nontrivial:
                    ctx.nontriv(('sv', alpha, vec, kf, asc))
                info = dict(values=vec, ascending=asc, keyfunc=kf)
                try:
                    res = s.sort_values(ascending=asc, key=f)
                except Exception as e:
                    ctx.violation(f'series.sort_values|raises|{type(e).__name__}', **info, error=repr(e))
                    continue
                order = ref_order([(pf(v),) for v in vec], asc)
                check_series(ctx, 'series.sort_values', res, [(labels[i], vec[i]) for i in order], 'nm', DT[alpha], info)
                # the same values under the default integer index: after sorting, every label must still *look up* its own value
                if n and kf is None:
                    ctx.transition()
                    sa = sf.Series(arr(vec, DT[alpha]), name='nm')
                    ra = sa.sort_values(ascending=asc)
                    if ra.index.values.tolist() != order:
                        ctx.violation('series.sort_values|auto-index|order', **info, got=ra.index.values.tolist(), expected=order)
                    else:
                        for lab in range(n):
                            g = ra.loc[lab]
                            if norm(g) != norm(vec[lab]):
                                ctx.violation('series.sort_values|auto-index|label-lookup-after-sort', **info, label=lab, got=norm(g), expected=norm(vec[lab]))
                                break
        ctx.outcome('series_values')
    ctx.sample({'family': 'series_values', 'alphabet': alpha, 'n': n}, limit=1)


def run_index_sort(case, ctx):
    '''Index.sort and Series/Frame sort_index on *unique* labels drawn as permutations; plus key functions.'''
    _, alpha, n = case
    pool = {'int': (3, 1, 2, 0, 5), 'neg': (-2, 0, 4, -7, 1), 'nan': (0.5, 2.5, -1.5, 9.0, 3.0), 'str': ('b', 'a', 'ab', 'ba', 'c')}[alpha]
    for labels in itertools.permutations(pool[:max(n, 0)], n):
        ix = sf.Index(arr(labels, DT[alpha]), name='ixn')
        vals = list(range(10, 10 + n))
        s = sf.Series(arr(vals, 'int64'), index=ix, name='nm')
        ctx.state(('I', alpha, labels))
        for kf in (None, 'neg_array', 'ties'):
            if kf == 'ties':
                # a key function that maps several labels to one key: stability and exact-reverse become observable
                if alpha == 'str':
                    f, pf = (lambda c: np.array([len(x) for x in c.values.tolist()])), (lambda v: len(v))
                else:
                    f, pf = (lambda c: (np.abs(c.values) // 2.5).astype(int)), (lambda v: int(abs(v) // 2.5))
            else:
                f, pf = keyfunc(kf, alpha != 'str')
            fi = (lambda i, f=f: f(i)) if f else None
            for asc in (True, False):
                ctx.transition(2)
                if n > 1:
                    ctx.nontriv(('is', alpha, labels, kf, asc))
                order = ref_order([(pf(v),) for v in labels], asc)
                info = dict(labels=labels, ascending=asc, keyfunc=kf)
                try:
                    r = ix.sort(ascending=asc, key=fi)
                    got = r.values.tolist()
                    if [norm(x) for x in got] != [norm(labels[i]) for i in order] or r.name != 'ixn' or type(r) is not sf.Index:
                        ctx.violation('index.sort|order', **info, got=got, expected=[labels[i] for i in order])
                    r2 = s.sort_index(ascending=asc, key=fi)
                    check_series(ctx, 'series.sort_index', r2, [(labels[i], vals[i]) for i in order], 'nm', 'int64', info)
                    if r2.index.name != 'ixn':
                        ctx.violation('series.sort_index|index-name', **info, got=r2.index.name)
                except Exception as e:
                    ctx.violation(f'index.sort|raises|{type(e).__name__}', **info, error=repr(e))
        ctx.outcome('index_sort')
    ctx.sample({'family': 'index_sort', 'alphabet': alpha, 'n': n}, limit=1)


def frame_rows(f):
    cols = columns_of(f)
    return [tuple(norm(c[i]) for c in cols) for i in range(f.shape[0])]


def build_frame(keycols, keydts, n, li, extra=True):
    '''key columns + payload (original position) + a str column; layout li: 0 = all 1-D, 1 = coarse (adjacent equal dtypes merged), 2 = single-column 2-D blocks.'''
    cols = [arr(c, d) for c, d in zip(keycols, keydts)]
    names = ['k%d' % i for i in range(len(cols))]
    if extra:
        cols.append(arr(list(range(n)), 'int64'))
        names.append('pos')
        cols.append(arr(['t%d' % i for i in range(n)], '<U2'))
        names.append('txt')
    lays = list(U.layouts(cols))
    if li == 0:
        sig, blocks = lays[0]
    elif li == 1:
        sig, blocks = lays[-1]
    else:
        blocks = [c.reshape(n, 1) for c in cols]
        for b in blocks:
            b.flags.writeable = False
        sig = ('all2x1',)
    f = U.frame_from_blocks(blocks, n, index=LABELS[:n], columns=names, name='fn')
    return f, names, sig


def check_frame_rows(ctx, tag, f, res, order, info):
    if not isinstance(res, sf.Frame):
        ctx.violation(f'{tag}|type', **info, got=type(res).__name__)
        return
    rows = frame_rows(f)
    labs = f.index.values.tolist()
    exp = [(labs[i], rows[i]) for i in order]
    got = list(zip(res.index.values.tolist(), frame_rows(res)))
    if got != exp:
        ctx.violation(f'{tag}|order', **info, got=got, expected=exp)
        return
    if (res.name != f.name or res.columns.values.tolist() != f.columns.values.tolist()
            or [str(d) for d in res.dtypes.values] != [str(d) for d in f.dtypes.values]):
        ctx.violation(f'{tag}|name-columns-dtypes', **info, got=(res.name, res.columns.values.tolist(), [str(d) for d in res.dtypes.values]))


def run_frame_values(case, ctx):
    fam = case[0]
    if fam == 'frame_values1':
        _, a1, n, li, (sh, nsh) = case
        alphas, axis = (a1,), 1
    elif fam == 'frame_values2':
        _, a1, a2, n, li, axis, (sh, nsh) = case
        alphas = (a1, a2)
    else:
        _, n, li, (sh, nsh) = case
        alphas, axis = ('int', 'int', 'int'), 1
    nk = len(alphas)
    for vi, vecs in enumerate(itertools.product(*(itertools.product(ALPHA[a], repeat=n) for a in alphas))):
        if vi % nsh != sh:
            continue
        f, names, sig = build_frame(vecs, [DT[a] for a in alphas], n, li)
        ctx.state((fam, alphas, vecs, sig))
        keys = [tuple(vecs[k][i] for k in range(nk)) for i in range(n)]
        label = names[0] if nk == 1 else names[:nk]
        numeric = all(a != 'str' for a in alphas)
        kfs = KEYFUNCS if (numeric and axis == 1 and 'big' not in alphas) else (None,)   # (a key function reading .values would itself merge big ints with floats)
        target = f
        if axis == 0:
            # sort columns by row values: transpose the data (rows become columns); only key rows participate
            if len(set(alphas)) > 1:
                # key rows of different kinds make every column a mixed (object / promoted) column: ordering is outside the claim
                continue
            target = sf.Frame.from_records([list(v) for v in vecs], index=names[:nk], columns=LABELS[:n], name='fn')
        for kf in kfs:
            fk, pf = keyfunc(kf, numeric)
            for asc in (True, False):
                ctx.transition()
                order = ref_order([tuple(pf(v) for v in k) for k in keys], asc)
                if order != list(range(n)) or len(set(map(repr, keys))) < n:
                    ctx.nontriv((fam, alphas, vecs, kf, asc, axis))
                info = dict(keys=vecs, ascending=asc, keyfunc=kf, layout=sig, axis=axis)
                try:
                    res = target.sort_values(label, ascending=asc, axis=axis, key=fk)
                except Exception as e:
                    ctx.violation(f'frame.sort_values|raises|{type(e).__name__}|axis={axis}', **info, error=repr(e))
                    continue
                if axis == 1:
                    check_frame_rows(ctx, f'frame.sort_values|nk={nk}', f, res, order, info)
                else:
                    got = res.columns.values.tolist()
                    exp = [LABELS[i] for i in order]
                    gotcells = [tuple(norm(x) for x in res.iloc[:, j].values.tolist()) for j in range(res.shape[1])]
                    expcells = [tuple(norm(vecs[k][i]) for k in range(nk)) for i in order]
                    if got != exp or gotcells != expcells or res.index.values.tolist() != names[:nk]:
                        ctx.violation(f'frame.sort_values|axis0|nk={nk}', **info, got=(got, gotcells), expected=(exp, expcells))
        ctx.outcome(fam)
    ctx.sample({'family': fam, 'alphabets': alphas, 'n': n, 'layout': li}, limit=1)


def ih_label_sets(shape):
    depth, inner = shape
    outs = ['b', 'a', 'c'][:len(inner)]
    base = []
    for o, cnt in zip(outs, inner):
        for v in (2, 1)[:cnt]:
            base.append((o, v) if depth == 2 else (o, v, 'z' if v == 2 else 'y'))
    # every arrangement that keeps the tree shape: permute outer groups and inner members
    groups = {}
    for t in base:
        groups.setdefault(t[0], []).append(t)
    for og in itertools.permutations(groups):
        for inner_perm in itertools.product(*(itertools.permutations(groups[o]) for o in og)):
            yield [t for grp in inner_perm for t in grp]


def run_label_sort(case, ctx):
    _, kind, shape = case
    if kind == 'flat':
        n = shape
        pool = ('b', 'a', 'ab', 'ba', 'c')
        label_sets = [list(p) for p in itertools.permutations(pool[:n], n)]
    else:
        label_sets = list(ih_label_sets(shape))
    for labels in label_sets:
        n = len(labels)
        if kind == 'flat':
            ix = sf.Index(labels, name='ixn')
        else:
            ix = sf.IndexHierarchy.from_labels(labels, name='ixn')
        c0 = arr(list(range(n)), 'int64')
        c1 = arr(['t%d' % i for i in range(n)], '<U2')
        c2 = arr([i * 0.5 for i in range(n)], 'float64')
        f = sf.Frame.from_items(zip(('p', 'q', 'r'), (c0, c1, c2)), index=ix, name='fn') if n or True else None
        ft = sf.Frame.from_records([c0.tolist(), c2.tolist()], index=('p', 'r'), columns=ix, name='fn') if n else None
        ctx.state(('L', kind, tuple(labels)))
        for asc in (True, False):
            order = ref_order([t if isinstance(t, tuple) else (t,) for t in labels], asc)
            info = dict(labels=labels, ascending=asc)
            ctx.transition(3)
            if n > 1:
                ctx.nontriv(('ls', kind, tuple(labels), asc))
            try:
                r = ix.sort(ascending=asc)
                got = [tuple(t) if kind == 'ih' else t for t in r]
                if got != [labels[i] for i in order] or r.name != 'ixn' or type(r) is not type(ix):
                    ctx.violation(f'{kind}.sort|order', **info, got=got, expected=[labels[i] for i in order])
                rf = f.sort_index(ascending=asc)
                rows = frame_rows(f)
                gotf = list(zip([tuple(t) if kind == 'ih' else t for t in rf.index], frame_rows(rf)))
                expf = [(labels[i], rows[i]) for i in order]
                if gotf != expf or rf.name != 'fn' or rf.columns.values.tolist() != ['p', 'q', 'r'] or [str(d) for d in rf.dtypes.values] != ['int64', '<U2', 'float64'] or rf.index.name != 'ixn':
                    ctx.violation(f'frame.sort_index|{kind}', **info, got=gotf, expected=expf)
                if ft is not None:
                    rc = ft.sort_columns(ascending=asc)
                    gotc = list(zip([tuple(t) if kind == 'ih' else t for t in rc.columns], [tuple(rc.iloc[:, j].values.tolist()) for j in range(n)]))
                    expc = [(labels[i], (float(c0[i]), float(c2[i]))) for i in order]
                    if gotc != expc or rc.index.values.tolist() != ['p', 'r'] or rc.name != 'fn':
                        ctx.violation(f'frame.sort_columns|{kind}', **info, got=gotc, expected=expc)
            except Exception as e:
                ctx.violation(f'label_sort|raises|{type(e).__name__}|{kind}', **info, error=repr(e))
        # hierarchical labels with a key function: a 2-D array whose columns are the depths in reverse (inner depth decides first), and a 1-D array of the
        # inner depth only (ties between outer groups: stability and exact-reverse become observable)
        if kind == 'ih' and n:
            depth = len(labels[0])
            for kf, fn, keyf in (('array2d-inner-first', lambda i: np.array([list(t)[::-1] for t in i], dtype=object), lambda t: tuple(t[::-1])),
                                 ('array1d-inner-only', lambda i: np.array([t[1] for t in i]), lambda t: (t[1],))):
                for asc in (True, False):
                    ctx.transition(2)
                    if n > 1:
                        ctx.nontriv(('ls-key', kind, tuple(labels), kf, asc))
                    order = ref_order([keyf(t) for t in labels], asc)
                    # non-tree results cannot be represented by this version: expect a refusal there, data otherwise
                    seen, tree = [], True
                    for i_ in order:
                        o = labels[i_][0]
                        if seen and o != seen[-1] and o in seen:
                            tree = False
                        seen.append(o)
                    try:
                        rf = f.sort_index(ascending=asc, key=fn)
                        got = [tuple(t) for t in rf.index]
                        if got != [labels[i_] for i_ in order] or frame_rows(rf) != [frame_rows(f)[i_] for i_ in order]:
                            ctx.violation(f'frame.sort_index|ih|key={kf}', labels=labels, ascending=asc, got=got, expected=[labels[i_] for i_ in order])
                        rs = ix.sort(ascending=asc, key=fn)
                        if [tuple(t) for t in rs] != [labels[i_] for i_ in order]:
                            ctx.violation(f'ih.sort|key={kf}', labels=labels, ascending=asc, got=[tuple(t) for t in rs], expected=[labels[i_] for i_ in order])
                        # the same hierarchy as COLUMNS, sorted with the same key function: labels and the data under them move together
                        ft_ = f.transpose()
                        rc_ = ft_.sort_columns(ascending=asc, key=fn)
                        gotc = [tuple(t) for t in rc_.columns]
                        cols_before = {tuple(t): [norm(x) for x in ft_.iloc[:, j].values] for j, t in enumerate(ft_.columns)}
                        cols_after = {tuple(t): [norm(x) for x in rc_.iloc[:, j].values] for j, t in enumerate(rc_.columns)}
                        if gotc != [labels[i_] for i_ in order] or cols_after != cols_before:
                            ctx.violation(f'frame.sort_columns|ih|key={kf}', labels=labels, ascending=asc, got=gotc, expected=[labels[i_] for i_ in order], data_follows_labels=cols_after == cols_before)
                    except Exception as e:
                        if tree:
                            ctx.violation(f'sort_index|ih|key={kf}|raises-{type(e).__name__}', labels=labels, ascending=asc, error=repr(e))
        # key function on labels returning an array / an index (flat only)
        if kind == 'flat' and n:
            for kf, fn in (('rev_array', lambda i: np.array([s[::-1] for s in i.values.tolist()])),
                           ('rev_index', lambda i: sf.Index([s[::-1] + '%d' % k for k, s in enumerate(i.values.tolist())]))):
                for asc in (True, False):
                    ctx.transition()
                    keys = [(s[::-1],) for s in labels] if kf == 'rev_array' else [(s[::-1] + '%d' % k,) for k, s in enumerate(labels)]
                    order = ref_order(keys, asc)
                    try:
                        rf = f.sort_index(ascending=asc, key=fn)
                        got = rf.index.values.tolist()
                        if got != [labels[i] for i in order] or frame_rows(rf) != [frame_rows(f)[i] for i in order]:
                            ctx.violation(f'frame.sort_index|key={kf}', labels=labels, ascending=asc, got=got, expected=[labels[i] for i in order])
                    except Exception as e:
                        ctx.violation(f'frame.sort_index|key={kf}|raises|{type(e).__name__}', labels=labels, error=repr(e))
        ctx.outcome('label_sort:' + kind)
    ctx.sample({'family': 'label_sort', 'kind': kind, 'shape': shape, 'arrangements': len(label_sets)}, limit=1)


def run_grown_and_auto(case, ctx):
    '''(a) tables whose columns are int or float (NaN allowed) held by a Frame built at once and by a FrameGO grown column by column: sorting the columns
    by a row (sort_values axis=0) and the rows by a column gives the reference arrangement for both; (b) containers with the auto-generated index:
    sort_index with key functions.'''
    _, n = case
    alpha = (1, 0, NAN, -1.5)
    cols_l = LABELS[:n]
    for vec in itertools.product(alpha, repeat=n):
        # column i = (key_i, 10 * i): int64 if the key is an int, float64 otherwise
        arrays = [arr([v, 10 * i], 'int64' if isinstance(v, int) else 'float64') for i, v in enumerate(vec)]
        f = sf.Frame.from_items(zip(cols_l, arrays), index=('k', 'o'), name='fn')
        g = sf.FrameGO(index=('k', 'o'), name='fn')
        for lab, a in zip(cols_l, arrays):
            g[lab] = a
        ctx.state(('grown', vec))
        for asc in (True, False):
            order = ref_order([(v,) for v in vec], asc)
            exp = [cols_l[i] for i in order]
            info = dict(key_row=vec, ascending=asc)
            for tname, t in (('frame', f), ('grown-FrameGO', g)):
                ctx.transition()
                if order != list(range(n)):
                    ctx.nontriv(('grown', vec, asc, tname))
                try:
                    r = t.sort_values('k', axis=0, ascending=asc)
                    got = r.columns.values.tolist()
                    cells = [norm(x) for x in r.loc['o'].values.tolist()]
                    if got != exp or cells != [norm(10 * i) for i in order] and cells != [norm(float(10 * i)) for i in order]:
                        ctx.violation(f'frame.sort_values|axis0|{tname}|columns-order', **info, got=got, expected=exp)
                except Exception as e:
                    ctx.violation(f'frame.sort_values|axis0|{tname}|raises|{type(e).__name__}', **info, error=repr(e))
    # (b) auto-generated index
    vals = [(i * 7) % 5 for i in range(n)]
    fa = sf.Frame.from_items((('p', arr(vals, 'int64')), ('q', arr(['t%d' % i for i in range(n)], '<U2'))), name='fn')
    sa = sf.Series(arr(vals, 'int64'), name='nm')
    ga = fa.to_frame_go()
    for kname, kfn, pk in (('neg', lambda ix: -ix.values, lambda i: -i), ('mod2', lambda ix: ix.values % 2, lambda i: i % 2), ('vals', lambda ix: np.array(vals), lambda i: vals[i])):
        for asc in (True, False):
            order = ref_order([(pk(i),) for i in range(n)], asc)
            info = dict(n=n, key=kname, ascending=asc)
            for tname, t in (('frame', fa), ('series', sa), ('framego', ga)):
                ctx.transition()
                ctx.nontriv(('auto', n, kname, asc, tname))
                try:
                    r = t.sort_index(ascending=asc, key=kfn)
                    got = r.index.values.tolist()
                    gv = (r.values.tolist() if tname == 'series' else r['p'].values.tolist())
                    if got != order or gv != [vals[i] for i in order]:
                        ctx.violation(f'{tname}.sort_index|auto-index|key-function|order', **info, got=got, expected=order)
                except Exception as e:
                    ctx.violation(f'{tname}.sort_index|auto-index|key-function|raises|{type(e).__name__}', **info, error=repr(e))
    # (c) rows labelled by a hierarchical index, sorted by a column: the (label, row) associations in key order
    from mc.props.c02 import tree_ordered
    ih_labels = [('a', 1), ('a', 2), ('b', 1), ('b', 2)][:n]
    for vec in itertools.product((1, 2, 0), repeat=n):
        fh = sf.Frame.from_items((('k', arr(vec, 'int64')), ('v', arr(['t%d' % i for i in range(n)], '<U2'))), index=sf.IndexHierarchy.from_labels(ih_labels), name='fn')
        for asc in (True, False):
            order = ref_order([(v,) for v in vec], asc)
            exp = [ih_labels[i] for i in order]
            ctx.transition()
            ctx.state(('hier-sort', vec, asc))
            info = dict(keys=vec, ascending=asc, index=ih_labels)
            try:
                r = fh.sort_values('k', ascending=asc)
            except Exception as e:
                if tree_ordered(exp):
                    ctx.violation(f'frame.sort_values|hier-index|raises|{type(e).__name__}', **info, error=repr(e))
                else:
                    ctx.violation(f'frame.sort_values|hier-index|refused-when-the-sorted-row-order-is-not-tree-shaped|{type(e).__name__}', **info, expected=exp)
                continue
            got = [tuple(t) for t in r.index]
            if got != exp or r['v'].values.tolist() != ['t%d' % i for i in order]:
                ctx.violation('frame.sort_values|hier-index|order', **info, got=got, expected=exp)
    ctx.outcome('grown_and_auto')
    ctx.sample({'family': 'grown_and_auto', 'n': n}, limit=1)


def run_case(case, ctx):
    fam = case[0]
    if fam == 'grown_and_auto':
        return run_grown_and_auto(case, ctx)
    if fam == 'series_values':
        run_series_values(case, ctx)
    elif fam == 'index_sort':
        run_index_sort(case, ctx)
    elif fam.startswith('frame_values'):
        run_frame_values(case, ctx)
    else:
        run_label_sort(case, ctx)
