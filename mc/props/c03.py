"""C03 Block manager transparency and structural coherence of Frame.

Mode P (differential).  case = (column-kind sequence, nrows).  The same content is
built under EVERY block layout (all compositions of the column sequence into
runs of equal dtype, every width-1 run as 1-D and as (n,1) 2-D block); a menu of
~200 single-frame operation instances is applied to every layout; for each
operation the set of normalised outcomes (labels, per-column values, per-column
dtypes, or exception class) over all layouts must be a singleton.  Each layout is
additionally checked for structural coherence (shape vs labels; values / iloc /
row / column / element iteration / to_pairs agree cell by cell; dtypes).
"""
import copy
import itertools
import pickle

import numpy as np

import static_frame as sf
from mc import universe as U
from mc.observe import columns_of, norm, snap

PROPERTY_ID = 'C03'
MODE = 'P (product enumeration: column kinds x rows x ALL block layouts x operation menu; differential oracle across layouts + structural invariants)'
RULE = ('case = (column kinds, nrows); for each operation instance the outcomes over all layouts of that content are compared (must be one equivalence class); '
        'non-trivial = (content, operation) with at least 2 layouts; states = distinct (content, layout) frames; transitions = operation applications; '
        'structural coherence is checked on every layout')
ASSUMPTIONS = [
    'outcomes are compared through a deep snapshot: class, name, labels, per-column dtype and values (NaN / NaT / None tagged), or the exception class',
    'float results that differ only by summation order (2-D block vs 1-D column reductions) are rounded to 12 significant digits before comparison',
    'reductions are driven on numeric columns with at least one row (0-sized axes and Boolean / object reductions are C15 known findings and would repeat here)',
]

KINDS = ('int', 'floatnan', 'bool', 'str', 'obj')
GROWN = True


def scope(tier):
    if tier == 'quick':
        return dict(maxcols=3, rows=(0, 1, 3))
    return dict(maxcols=4, rows=(0, 1, 2, 3))


def cases(tier):
    sc = scope(tier)
    run_case.tier = tier
    for m in range(0, sc['maxcols'] + 1):
        for kinds in itertools.product(KINDS, repeat=m):
            for n in sc['rows']:
                yield (kinds, n)


def universe(tier):
    sc = scope(tier)
    return {'kinds': KINDS, 'maxcols': sc['maxcols'], 'rows': list(sc['rows']), 'operation_instances': len(op_menu(3, 3, ('int', 'floatnan', 'str')))}


def rnd(x):
    if isinstance(x, tuple):
        return tuple(rnd(v) for v in x)
    if isinstance(x, float) and x == x and x not in (float('inf'), float('-inf')):
        return float('%.12g' % x)
    return x


def outcome(f):
    try:
        r = f()
    except Exception as e:
        return ('raises', type(e).__name__)
    return rnd(_snapany(r))


def strip(o):
    '''outcome without dtype strings and with numbers compared by value (to recognise a dtype-only difference)'''
    if isinstance(o, tuple):
        if len(o) == 2 and o[0] in ('i', 'f', 'b') and not isinstance(o[1], tuple):
            return ('num', float(o[1])) if o[1] != 'nan' else ('num', 'nan')
        if o and o[0] == 'S' and len(o) == 6:
            return ('S', o[1], o[2], strip(o[4]), strip(o[5]))
        if o and o[0] == 'F' and len(o) == 7:
            return ('F', o[1], o[2], o[3], strip(o[4]), strip(o[5]), tuple(strip(c[1]) for c in o[6]))
        if o and o[0] in ('I',) and len(o) == 5:
            return ('I', o[1], o[2], strip(o[4]))
        if o and o[0] == 'A' and len(o) == 4:
            return ('A', o[2], strip(o[3]))
        return tuple(strip(x) for x in o)
    return o


def diff_signature(a, b):
    for x in (a, b):
        if isinstance(x, tuple) and len(x) == 2 and x[0] == 'raises':
            return f'raises-{x[1]}-under-some-layouts'
    if strip(a) == strip(b):
        return 'dtype-only'
    if isinstance(a, tuple) and isinstance(b, tuple) and a and b and a[0] == 'S' and b[0] == 'S' and len(a) == 6 and len(b) == 6:
        pa = sorted(map(repr, zip(strip(a[4])[-1], strip(a[5]))))
        pb = sorted(map(repr, zip(strip(b[4])[-1], strip(b[5]))))
        if pa == pb:
            return 'order-only'
    return 'values-or-labels'


def _snapany(r):
    if isinstance(r, (sf.Frame, sf.Series, sf.Index, sf.IndexHierarchy, np.ndarray, tuple, list, dict)):
        return snap(r)
    if isinstance(r, np.ma.MaskedArray):
        return ('ma', snap(np.asarray(r.data)), snap(np.ma.getmaskarray(r)))
    if hasattr(r, '__iter__') and not isinstance(r, (str, bytes)):
        return ('iter', tuple(_snapany(x) for x in r))
    return norm(r)


def opclass_of(name):
    if name.startswith('iloc['):
        return 'iloc[' + ('int' if name[5:].split(',')[0].lstrip('-').isdigit() else 'multi') + ',' + ('int' if name.rsplit(',', 1)[1][:-1].lstrip('-').isdigit() else 'multi') + ']'
    if '.iloc[' in name:
        return name.split('.iloc[')[0] + '.iloc[...]' + name.rsplit(']', 1)[1]
    if name.startswith('assign.bloc['):
        return 'assign.bloc[...]'      # one mechanism whatever the mask / value
    if name.startswith('astype[['):
        return 'astype[list]' + name.rsplit(']', 1)[1]
    return name


def op_menu(n, m, kinds):
    '''list of (name, callable(frame) -> result).  Keys are chosen to cross block boundaries, descend, step and repeat.'''
    ops = []
    rk = [0, -1, n, slice(None), slice(1, None), slice(None, None, -1), slice(0, n, 2), slice(-1, None, -2), [0], [n - 1, 0] if n > 1 else [0],
          np.array([i % 2 == 0 for i in range(n)], dtype=bool)]
    ck = [0, -1, m, slice(None), slice(1, None), slice(None, None, -1), slice(0, m, 2), slice(m, None, -1), slice(-1, 0, -1), [0], [m - 1, 0] if m > 1 else [0],
          [0, m - 1, 1] if m > 2 else [0], np.array([j % 2 == 1 for j in range(m)], dtype=bool), np.array([True] * m, dtype=bool)]

    def kr(k):
        return U.key_repr(k)
    for r, c in itertools.product(rk, ck):
        ops.append((f'iloc[{kr(r)},{kr(c)}]', lambda f, r=r, c=c: f.iloc[r, c]))
    for c in ck:
        ops.append((f'assign.iloc[:,{kr(c)}](-1)', lambda f, c=c: f.assign.iloc[:, c](-1)))
        ops.append((f'assign.iloc[0,{kr(c)}](str)', lambda f, c=c: f.assign.iloc[0, c]('zz')))
        ops.append((f'drop.iloc[:,{kr(c)}]', lambda f, c=c: f.drop.iloc[None, c] if False else f.drop.iloc[[], c]))
        ops.append((f'mask.iloc[:,{kr(c)}]', lambda f, c=c: f.mask.iloc[:, c]))
        ops.append((f'masked_array.iloc[0:1,{kr(c)}]', lambda f, c=c: f.masked_array.iloc[0:1, c]))
    for r in rk:
        ops.append((f'assign.iloc[{kr(r)}](0.5)', lambda f, r=r: f.assign.iloc[r](0.5)))
        ops.append((f'drop.iloc[{kr(r)}]', lambda f, r=r: f.drop.iloc[r]))
    simple = [
        ('values', lambda f: f.values), ('shape', lambda f: f.shape), ('dtypes', lambda f: f.dtypes), ('T', lambda f: f.T), ('transpose', lambda f: f.transpose()),
        ('shift(1)', lambda f: f.shift(1)), ('shift(-1,1)', lambda f: f.shift(-1, 1)), ('shift(0,2,fill)', lambda f: f.shift(0, 2, fill_value='F')),
        ('roll(1)', lambda f: f.roll(1)), ('roll(0,1)', lambda f: f.roll(0, 1)), ('roll(1,-1,labels)', lambda f: f.roll(1, -1, include_index=True, include_columns=True)),
        ('reindex(cols)', lambda f: f.reindex(columns=list(f.columns.values[::-1]) + ['new'])), ('reindex(rows)', lambda f: f.reindex(index=list(f.index.values[::-1]) + ['new'], fill_value=-1)),
        ('relabel', lambda f: f.relabel(columns=lambda x: x + '_')), ('rename', lambda f: f.rename('zz')),
        ('sort_index(desc)', lambda f: f.sort_index(ascending=False)), ('sort_columns(desc)', lambda f: f.sort_columns(ascending=False)),
        ('isna', lambda f: f.isna()), ('notna', lambda f: f.notna()), ('fillna(0)', lambda f: f.fillna(0)), ('fillna("s")', lambda f: f.fillna('s')),
        ('dropna(0,any)', lambda f: f.dropna(axis=0, condition=np.any)), ('dropna(1,any)', lambda f: f.dropna(axis=1, condition=np.any)),
        ('dropna(1,all)', lambda f: f.dropna(axis=1, condition=np.all)),
        ('fillna_forward(ax1)', lambda f: f.fillna_forward(axis=1)), ('fillna_backward(ax1,1)', lambda f: f.fillna_backward(1, axis=1)), ('fillna_forward(ax0)', lambda f: f.fillna_forward(axis=0)),
        ('fillna_leading(ax1)', lambda f: f.fillna_leading(-1, axis=1)), ('fillna_trailing(ax1)', lambda f: f.fillna_trailing(-1, axis=1)),
        ('astype(object)', lambda f: f.astype(object)), ('astype[0](str)', lambda f: f.astype[f.columns.values[0]](str)), ('astype[-1](object)', lambda f: f.astype[f.columns.values[-1]](object)),
        ('iter_array(0)', lambda f: tuple(f.iter_array(axis=0))), ('iter_array(1)', lambda f: tuple(f.iter_array(axis=1))),
        ('iter_series(0)', lambda f: tuple(f.iter_series(axis=0))), ('iter_series(1)', lambda f: tuple(f.iter_series(axis=1))),
        ('iter_tuple(0)', lambda f: tuple(tuple(t) for t in f.iter_tuple(axis=0))), ('iter_tuple(1)', lambda f: tuple(tuple(t) for t in f.iter_tuple(axis=1))),
        ('iter_element', lambda f: tuple(f.iter_element())), ('iter_element_items', lambda f: tuple(f.iter_element_items())),
        ('to_pairs(0)', lambda f: f.to_pairs(0)), ('to_pairs(1)', lambda f: f.to_pairs(1)), ('items', lambda f: tuple((k, v) for k, v in f.items())),
        ('pickle', lambda f: pickle.loads(pickle.dumps(f))), ('deepcopy', lambda f: copy.deepcopy(f)), ('copy', lambda f: copy.copy(f)), ('copy-eq', lambda f: f.equals(pickle.loads(pickle.dumps(f)), compare_dtype=True, compare_name=True)),
        ('head(1)', lambda f: f.head(1)), ('tail(2)', lambda f: f.tail(2)), ('count(0)', lambda f: f.count(axis=0)), ('count(1)', lambda f: f.count(axis=1)),
        ('unique', lambda f: tuple(sorted(map(repr, f.unique().tolist())))), ('isin', lambda f: f.isin((1, 'x0', True))),
        ('eq-self', lambda f: f == f), ('eq-1', lambda f: f == 1), ('to_frame_go', lambda f: f.to_frame_go()), ('bool-not', lambda f: ~f.isna()),
        ('insert_after', lambda f: f.insert_after(f.columns.values[0], sf.Series(np.arange(len(f.index)), index=f.index, name='ins'))),
        ('set_index(last)', lambda f: f.set_index(f.columns.values[-1])), ('unset_index', lambda f: f.unset_index()),
        ('relabel_level_add', lambda f: f.relabel_level_add(columns='L')), ('from_concat(self,self.rename)', lambda f: sf.Frame.from_concat((f, f.relabel(index=lambda x: x + 'b')))),
        ('from_concat(axis1)', lambda f: sf.Frame.from_concat((f, f.relabel(columns=lambda x: x + 'b')), axis=1)),
        ('loc[last-row]', lambda f: f.loc[f.index.values[-1]]), ('getitem[first]', lambda f: f[f.columns.values[0]]), ('bloc[notna]', lambda f: f.bloc[f.notna()]),
        ('assign.bloc(isna)(0)', lambda f: f.assign.bloc[f.isna()](0)), ('iter_group(first)', lambda f: tuple((k, g) for k, g in f.iter_group_items(f.columns.values[0]))),
        ('iter_window(2)', lambda f: tuple(f.iter_window_items(size=2))), ('iter_window_array(2,ax1)', lambda f: tuple(f.iter_window_array_items(size=2, axis=1))),
    ]
    ops += simple
    # Boolean-frame (bloc) assignment with coordinate-labelled values: masks that leave leading / middle / trailing blocks without a True
    def mk(pattern):
        def mask(f):
            nn, mm = f.shape
            return sf.Frame(np.array([[pattern(i, j, nn, mm) for j in range(mm)] for i in range(nn)], dtype=bool).reshape(nn, mm), index=f.index, columns=f.columns)
        return mask
    patterns = {'last-col': lambda i, j, nn, mm: j == mm - 1, 'not-first-col': lambda i, j, nn, mm: j > 0, 'checker': lambda i, j, nn, mm: (i + j) % 2 == 1,
                'first-col': lambda i, j, nn, mm: j == 0, 'middle-col': lambda i, j, nn, mm: j == 1, 'last-row': lambda i, j, nn, mm: i == nn - 1}
    for pn, pat in patterns.items():
        ops.append((f'assign.bloc[{pn}](elem)', lambda f, pat=pat: f.assign.bloc[mk(pat)(f)](-5)))
        ops.append((f'assign.bloc[{pn}](Series)', lambda f, pat=pat: f.assign.bloc[mk(pat)(f)](f.bloc[mk(pat)(f)].iloc[::-1])))
        ops.append((f'assign.bloc[{pn}].apply', lambda f, pat=pat: f.assign.bloc[mk(pat)(f)].apply(lambda x: x.astype(str) + '!')))
        ops.append((f'assign.bloc[{pn}-array](elem)', lambda f, pat=pat: f.assign.bloc[mk(pat)(f).values](None)))
        ops.append((f'bloc[{pn}]-sorted', lambda f, pat=pat: tuple(sorted(map(repr, f.bloc[mk(pat)(f)].to_pairs())))))
    if m >= 2:
        cv = lambda f: list(f.columns.values)
        for t in (float, object, str):
            tn = t.__name__
            ops.append((f'astype[[last,first]]({tn})', lambda f, t=t: f.astype[[cv(f)[-1], cv(f)[0]]](t)))
            ops.append((f'astype[[1,0]]({tn})', lambda f, t=t: f.astype[[cv(f)[1], cv(f)[0]]](t)))
        ops.append(('astype[slice]', lambda f: f.astype[cv(f)[0]:cv(f)[1]](object)))
        ops.append(('astype(mapping-rev)', lambda f: f.astype({cv(f)[-1]: object, cv(f)[0]: object})))
    if set(kinds) <= {'int', 'floatnan'} and n >= 1 and m >= 1:
        for fn in ('sum', 'prod', 'min', 'max', 'mean', 'median', 'std', 'var', 'cumsum', 'cumprod'):
            for axis in (0, 1):
                for skipna in (True, False):
                    ops.append((f'{fn}({axis},{skipna})', lambda f, fn=fn, axis=axis, skipna=skipna: getattr(f, fn)(axis=axis, skipna=skipna)))
        ops += [('neg', lambda f: -f), ('abs', lambda f: abs(f)), ('add-1', lambda f: f + 1), ('radd', lambda f: 2 - f), ('mul-self', lambda f: f * f), ('div-row', lambda f: f / np.arange(1, m + 1)),
                ('lt-self-rev', lambda f: f < f.iloc[:, ::-1].relabel(columns=f.columns)), ('clip', lambda f: f.clip(lower=0, upper=3)), ('sort_values(first)', lambda f: f.sort_values(f.columns.values[0])),
                ('sort_values(row)', lambda f: f.sort_values(f.index.values[0], axis=0)), ('matmul', lambda f: f.fillna(0) @ np.ones(m))]
    return ops


PREOPS = [
    ('reverse-columns-twice', lambda f: f.iloc[:, ::-1].iloc[:, ::-1]),
    ('column-list-selection-in-order', lambda f: f.iloc[:, list(range(f.shape[1]))]),
    ('concat-of-column-halves', lambda f: sf.Frame.from_concat((f.iloc[:, :1], f.iloc[:, 1:]), axis=1).rename(f.name) if f.shape[1] > 1 else f.iloc[:, :]),
    ('double-transpose', lambda f: f.T.T),
    ('assign-first-column-to-itself', lambda f: f.assign.iloc[:, 0](f.iloc[:, 0].values)),
    ('concat-of-row-halves', lambda f: sf.Frame.from_concat((f.iloc[:1], f.iloc[1:])).rename(f.name) if f.shape[0] > 1 else f.iloc[:, :]),
    ('astype-roundtrip-last', lambda f: f.astype[f.columns.values[-1]](object).astype[f.columns.values[-1]](f.dtypes.values[-1])),
]


def build_cols(kinds, n):
    cols = []
    for j, k in enumerate(kinds):
        kk = {'floatnan': 'floatnan', 'obj': 'obj'}.get(k, k)
        cols.append(U.col(kk, n, variant=j))
    return cols


def structural(ctx, f, cols, n, m, info):
    if f.shape != (n, m) or len(f.index) != n or len(f.columns) != m:
        ctx.violation('structure|shape-vs-labels', **info, got=(f.shape, len(f.index), len(f.columns)))
        return
    try:
        v = f.values
        rows = list(f.iter_array(axis=1))
        colsit = list(f.iter_array(axis=0))
        el = list(f.iter_element())
        pairs = f.to_pairs(0)
        dts = list(f.dtypes.values)
    except Exception as e:
        ctx.violation(f'structure|read-raises-{type(e).__name__}', **info, error=repr(e))
        return
    if v.shape != (n, m) and not (m == 0 or n == 0):
        ctx.violation('structure|values-shape', **info, got=v.shape)
        return
    for j in range(m):
        if dts[j] != cols[j].dtype:
            ctx.violation('structure|dtypes', **info, column=j, got=str(dts[j]), expected=str(cols[j].dtype))
            return
        if colsit[j].dtype != cols[j].dtype:
            ctx.violation('structure|iter_array-column-dtype', **info, column=j, got=str(colsit[j].dtype))
            return
        for i in range(n):
            e = norm(cols[j][i])
            got = [norm(v[i, j]), norm(f.iloc[i, j]), norm(rows[i][j]), norm(colsit[j][i]), norm(el[i * m + j]), norm(pairs[j][1][i][1])]
            # a consolidated row may widen the number (int -> float) but never change it
            for g in got:
                if g != e and not (g[0] in 'if' and e[0] in 'ifb' and g[1] == e[1]) and not (g[0] == 'M' and e[0] == 'M'):
                    ctx.violation('structure|cell-differs-between-routes', **info, cell=(i, j), got=got, expected=e)
                    return


def run_case(case, ctx):
    kinds, n = case
    m = len(kinds)
    cols = build_cols(kinds, n)
    index = ['r%d' % i for i in range(n)]
    columns = ['c%d' % j for j in range(m)]
    lays = list(U.layouts(cols))
    frames = []
    for sig, blocks in lays:
        f = U.frame_from_blocks(blocks, n, index=index, columns=columns, name='fn')
        frames.append((sig, f))
        ctx.state((kinds, n, sig))
        structural(ctx, f, cols, n, m, dict(kinds=kinds, nrows=n, layout=sig))
    # the coarsest layout once more with every 2-D block stored column-major (what transposition and some NumPy routines produce): memory order is part of the layout
    sigc, blocksc = lays[-1]
    if any(b.ndim == 2 and b.shape[0] > 1 and b.shape[1] > 1 for b in blocksc):
        fb = []
        for b in blocksc:
            if b.ndim == 2:
                b = np.asfortranarray(b)
                b.flags.writeable = False
            fb.append(b)
        frames.append((tuple(sigc) + ('F-order',), U.frame_from_blocks(fb, n, index=index, columns=columns, name='fn')))
        ctx.state((kinds, n, 'F-order', sigc))
    base_snaps = [snap(f) for _, f in frames]
    if len(set(map(repr, base_snaps))) != 1:
        ctx.violation('harness|layouts-differ-at-construction', kinds=kinds, nrows=n)
        return
    if m == 0:
        ops = [o for o in op_menu(n, 1, kinds) if o[0] in ('values', 'shape', 'dtypes', 'T', 'isna', 'pickle', 'iter_array(0)', 'iter_array(1)', 'to_pairs(0)', 'head(1)', 'count(0)', 'rename')]
    else:
        ops = op_menu(n, m, kinds)
    for name, fn in ops:
        outs = {}
        objs = {}
        for sig, f in frames:
            ctx.transition()
            o = outcome(lambda: fn(f))
            outs.setdefault(repr(o), []).append(sig)
            objs[repr(o)] = o
        if len(frames) > 1:
            ctx.nontriv((kinds, n, name))
        ctx.outcome('raises' if any(k.startswith("('raises'") for k in outs) else 'ok')
        if len(outs) > 1:
            groups = sorted(outs.items(), key=lambda kv: -len(kv[1]))
            opclass = opclass_of(name)
            kinds_has = '+'.join(sorted(set(kinds)))
            dsig = diff_signature(objs[groups[0][0]], objs[groups[1][0]])
            ctx.violation(f'layout-dependent|{opclass}|{dsig}', kinds=kinds, nrows=n, operation=name,
                          majority=(groups[0][1][:3], groups[0][0][:300]), minority=(groups[1][1][:3], groups[1][0][:300]), kinds_present=kinds_has)
    # grow-only twin: the same blocks handed to a FrameGO at once, and appended to it one at a time (TypeBlocks.append keeps its own row-dtype
    # bookkeeping): every operation of the menu answers the same
    if m and GROWN:
        sig, blocks = lays[-1]
        at_once = sf.FrameGO(sf.TypeBlocks.from_blocks(blocks), index=index, columns=columns, name='fn', own_data=True)
        g = sf.FrameGO(index=index, name='fn')
        j = 0
        for b in blocks:
            w = 1 if b.ndim == 1 else b.shape[1]
            g.extend(sf.Frame(sf.TypeBlocks.from_blocks([b]), index=index, columns=columns[j:j + w], own_data=True))
            j += w
        ctx.state((kinds, n, 'grown', sig))
        structural(ctx, g, cols, n, m, dict(kinds=kinds, nrows=n, layout=('grown',) + tuple(sig)))
        for name, fn in ops:
            ctx.transition(2)
            oa, ob = outcome(lambda: fn(at_once)), outcome(lambda: fn(g))
            ctx.nontriv((kinds, n, name, 'grown'))
            if repr(oa) != repr(ob):
                ctx.violation(f'grown-FrameGO-differs-from-FrameGO-built-at-once|{opclass_of(name).split("(")[0].split("[")[0]}|{diff_signature(oa, ob)}', kinds=kinds, nrows=n, operation=name,
                              at_once=repr(oa)[:300], grown=repr(ob)[:300])
    # non-initial states: the same content reached through another operation (whose result may be blocked differently under each layout) gets the
    # selection / update / iteration part of the menu again
    if 1 <= m <= 3 and n >= 1:     # (4-column frames get the first-level menu only: the derived-state pass costs 5x)
        pre = PREOPS if run_case.tier != 'quick' else PREOPS[1:3]
        for pname, pfn in pre:
            derived = []
            try:
                for sig, f in frames:
                    derived.append((sig, pfn(f)))
            except Exception:
                continue     # the derivation itself is compared by the first-level menu
            if len(set(repr(snap(d)) for _, d in derived)) != 1:
                continue     # idem
            d0 = derived[0][1]
            wanted = ('iloc[', 'assign.', 'drop.', 'mask.', 'astype', 'iter_', 'to_pairs', 'values', 'fillna', 'shift', 'roll', 'sort_', 'bloc', 'dropna', 'T', 'deepcopy', 'pickle', 'copy')
            if run_case.tier == 'quick':
                wanted = ('assign.', 'drop.', 'astype', 'fillna', 'bloc', 'values', 'iter_array', 'deepcopy', 'pickle', 'copy')
            ops2 = [o for o in op_menu(d0.shape[0], d0.shape[1], kinds) if o[0].startswith(wanted)]
            for name, fn in ops2:
                outs, objs = {}, {}
                for sig, d in derived:
                    ctx.transition()
                    o = outcome(lambda: fn(d))
                    outs.setdefault(repr(o), []).append(sig)
                    objs[repr(o)] = o
                ctx.nontriv((kinds, n, pname, name))
                if len(outs) > 1:
                    groups = sorted(outs.items(), key=lambda kv: -len(kv[1]))
                    opclass = opclass_of(name)
                    dsig = diff_signature(objs[groups[0][0]], objs[groups[1][0]])
                    ctx.violation(f'layout-dependent|{opclass}|{dsig}', kinds=kinds, nrows=n, derived_by=pname, operation=name,
                                  majority=(groups[0][1][:3], groups[0][0][:300]), minority=(groups[1][1][:3], groups[1][0][:300]))
    # operands untouched by everything above
    for (sig, f), b in zip(frames, base_snaps):
        if snap(f) != b:
            ctx.violation('operand-changed', kinds=kinds, nrows=n, layout=sig)
    ctx.sample({'kinds': kinds, 'nrows': n, 'layouts': len(lays), 'operations': len(ops)}, limit=1)


run_case.tier = 'quick'
