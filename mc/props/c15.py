"""C15 Axis reductions equal the independent per-column / per-row computation.

Mode P (differential).  case = (column-kind sequence, nrows, layout).  For every
reduction, axis, skipna (and ddof) the Frame result is compared, label by label,
with the same method applied to an independently built Series of that column
(axis 0) or of that row of `values` (axis 1); exception parity is part of the
comparison; cumulative functions must keep shape and labels; every layout of the
same content must give the same answer (compared through the per-Series oracle,
which does not depend on layout).
"""
import itertools
import math

import numpy as np

import static_frame as sf
from mc import universe as U
from mc.observe import columns_of, norm

PROPERTY_ID = 'C15'
MODE = 'P (product enumeration: kinds x rows x layouts x function x axis x skipna/ddof; oracle = per-Series computation)'
RULE = ('case = (column kinds, nrows, layout index); each of sum prod min max mean median std var(ddof 0/1) all any cumsum cumprod '
        'loc_min loc_max iloc_min iloc_max x axis 0/1 x skipna on/off is executed on the Frame and on one independently built Series per '
        'column / per row of values; non-trivial = (kinds, nrows, func, axis, skipna) where the per-Series results are not all equal or a missing value is present, counted once over layouts; '
        'states = distinct frames (kinds, nrows, layout); transitions = Frame reductions compared')
ASSUMPTIONS = [
    'the per-row oracle Series is built from Frame.values rows (the statement defines axis 1 over rows of values); values coherence is C03',
    'float results are compared with relative tolerance 1e-12 (summation order may differ between a 2-D block and a 1-D column); everything else exactly',
    'a function that is undefined for a column kind (the per-Series call raises) must also raise on the Frame, any exception class',
]

KINDS = {
    'int': lambda n, j: [(i * 3 + 1 + 7 * j) % 11 - 2 for i in range(n)],
    'float': lambda n, j: [i * 1.5 + 0.25 + j for i in range(n)],
    'int8': lambda n, j: [(i * 5 + j) % 7 - 3 for i in range(n)],
    'intwide': lambda n, j: [1000 * (i + 1) + 37 * j for i in range(n)],
    'complex': lambda n, j: [complex(i + 1 + j, (i * 2 + j) % 3 - 1) for i in range(n)],
    'floatinf': lambda n, j: [[float('inf'), float('-inf'), 1.5, -2.5, float('inf')][(i + 2 * j) % 5] for i in range(n)],
    'floatnan': lambda n, j: [float('nan') if (i + j) % 2 == 1 else i + 0.5 + j for i in range(n)],
    'allnan': lambda n, j: [float('nan')] * n,
    'bool': lambda n, j: [(i + j) % 2 == 0 for i in range(n)],
    'booltrue': lambda n, j: [True] * n,
    'objnum': lambda n, j: [[1, 2.5, None, 4][(i + j) % 4] for i in range(n)],
    'str': lambda n, j: ['s%d%d' % (i, j) for i in range(n)],
    'date': lambda n, j: [np.datetime64('2020-01-0%d' % (1 + (i + 2 * j) % 9)) for i in range(n)],
}
DT = {'floatinf': 'float64', 'complex': 'complex128', 'int8': 'int8', 'intwide': 'int64', 'int': 'int64', 'float': 'float64', 'floatnan': 'float64', 'allnan': 'float64', 'bool': 'bool', 'booltrue': 'bool',
      'objnum': 'object', 'str': '<U3', 'date': 'datetime64[D]'}

FUNCS = [('sum', {}), ('prod', {}), ('min', {}), ('max', {}), ('mean', {}), ('median', {}),
         ('std', {}), ('std', {'ddof': 1}), ('var', {}), ('var', {'ddof': 1}), ('all', {}), ('any', {}),
         ('loc_min', {}), ('loc_max', {}), ('iloc_min', {}), ('iloc_max', {})]
CUM = ['cumsum', 'cumprod']
# (skipna version, propagating version)
NPF = {'sum': (np.nansum, np.sum), 'prod': (np.nanprod, np.prod), 'min': (np.nanmin, np.min), 'max': (np.nanmax, np.max), 'mean': (np.nanmean, np.mean),
       'median': (np.nanmedian, np.median), 'std': (np.nanstd, np.std), 'var': (np.nanvar, np.var)}
NUM = {'int', 'int8', 'intwide', 'float', 'floatnan', 'floatinf', 'allnan', 'complex'}
NUMB = NUM | {'bool', 'booltrue'}


BOOLS = {'bool', 'booltrue'}


def defined(fname, kinds, axis):
    '''The claimed domain ("where the function is defined"): numeric columns for everything; all-Boolean frames for
    logical and order/sum reductions; Boolean mixed with numeric columns only column-wise (axis 0) -- row-wise such a mix is
    an object row, whose ordering / arithmetic NumPy does not define; homogeneous str / date frames for min and max.'''
    ks = set(kinds)
    if 'floatinf' in ks:
        # infinities of both signs: sums and products of them are NaN by IEEE arithmetic in an order-dependent way; only the order and logical reductions are compared
        return ks <= NUM and 'complex' not in ks and fname in ('all', 'any', 'min', 'max', 'loc_min', 'loc_max', 'iloc_min', 'iloc_max')
    if 'complex' in ks:
        # complex numbers have no order: only the arithmetic reductions are defined, and only among numeric columns
        return ks <= NUM and fname in ('sum', 'prod', 'mean', 'var', 'std', 'cumsum', 'cumprod')
    if ks <= NUM:
        return True
    if fname in ('sum', 'prod', 'all', 'any', 'min', 'max'):
        if ks <= BOOLS:
            return True
        if ks <= NUMB and axis == 0:
            return True
    if fname in ('min', 'max') and (ks == {'str'} or ks == {'date'}):
        return True
    return False


def flags(kinds, nrows, axis, parts_py):
    '''Structured discriminator of the input class, used in violation keys (stable across tiers).'''
    out = []
    if not parts_py or any(len(p) == 0 for p in parts_py):
        out.append('zero-sized-axis')
    elif any(all(isinstance(v, float) and v != v for v in p) for p in parts_py):
        out.append('some-part-all-nan')
    ks = set(kinds)
    if ks & BOOLS and ks - BOOLS:
        out.append('bool-with-numeric')
    elif ks and ks <= BOOLS:
        out.append('all-bool')
    return '+'.join(out) or 'plain'



def scope(tier):
    if tier == 'quick':
        return dict(kinds=('int8', 'intwide', 'float', 'floatnan', 'floatinf', 'complex', 'bool', 'objnum', 'str', 'date'), maxcols=3, rows=(0, 1, 2, 3, 4))
    return dict(kinds=tuple(KINDS), maxcols=4, rows=(0, 1, 2, 3, 4))


def cases(tier):
    sc = scope(tier)
    for m in range(0, sc['maxcols'] + 1):
        for kinds in itertools.product(sc['kinds'], repeat=m):
            for nrows in sc['rows']:
                protos = [np.empty(nrows, dtype=DT[k]) for k in kinds]
                nl = sum(1 for _ in U.layouts(protos))
                for li in range(nl):
                    yield (kinds, nrows, li)


def universe(tier):
    sc = scope(tier)
    return {'kinds': list(sc['kinds']), 'maxcols': sc['maxcols'], 'rows': list(sc['rows']),
            'functions': [f + (str(k) if k else '') for f, k in FUNCS] + CUM}


def arr(vals, dtype):
    if dtype == 'object':
        a = np.empty(len(vals), dtype=object)
        for i, v in enumerate(vals):
            a[i] = v
    else:
        a = np.array(vals, dtype=dtype) if len(vals) else np.array([], dtype=dtype)
    a.flags.writeable = False
    return a


def close(a, b):
    na, nb = norm(a), norm(b)
    if na == nb:
        return True
    if na[0] in ('f', 'i', 'b', 'c') and nb[0] in ('f', 'i', 'b', 'c'):
        if na[1] == 'nan' or nb[1] == 'nan':
            return na[1] == nb[1]
        x, y = complex(a), complex(b)
        if x == y:
            return True
        if math.isinf(x.real) or math.isinf(y.real):
            return False
        return abs(x - y) <= 1e-12 * max(abs(x), abs(y), 1e-300)
    return False


def call(obj, fname, kw):
    try:
        return ('ok', getattr(obj, fname)(**kw))
    except Exception as e:
        return ('err', type(e).__name__)


def run_case(case, ctx):
    kinds, nrows, li = case
    ncols = len(kinds)
    pycols = [KINDS[k](nrows, j) for j, k in enumerate(kinds)]
    arrays = [arr(c, DT[k]) for c, k in zip(pycols, kinds)]
    sig, blocks = list(U.layouts(arrays))[li]
    index = ['r%d' % i for i in range(nrows)]
    columns = ['c%d' % j for j in range(ncols)]
    f = U.frame_from_blocks(blocks, nrows, index=index, columns=columns, name='fn')
    ctx.state((kinds, nrows, sig))
    has_missing = any(k in ('floatnan', 'allnan', 'objnum') for k in kinds)
    # independent per-column Series (fresh arrays, never the frame's blocks)
    col_series = [sf.Series(arr(c, DT[k]), index=index) for c, k in zip(pycols, kinds)]
    try:
        values = f.values
        row_series = [sf.Series(arr(values[i].tolist() if values.dtype != object else list(values[i]), str(values.dtype)) if values.dtype.kind not in 'Mm' else values[i].copy(), index=columns)
                      for i in range(nrows)]
    except Exception as e:
        ctx.violation(f'values|raises|{type(e).__name__}', kinds=kinds, nrows=nrows, layout=sig, error=repr(e))
        return
    for (fname, kw), axis, skipna in itertools.product(FUNCS, (0, 1), (True, False)):
        if not defined(fname, kinds, axis):
            continue
        parts = col_series if axis == 0 else row_series
        labels = columns if axis == 0 else index
        fl = flags(kinds, nrows, axis, pycols if axis == 0 else [[c[i] for c in pycols] for i in range(nrows)])
        kwf = dict(kw, axis=axis, skipna=skipna)
        kws = dict(kw, skipna=skipna)
        tag = fname + ('_ddof1' if kw else '')
        info = dict(kinds=kinds, nrows=nrows, layout=sig, func=tag, axis=axis, skipna=skipna)
        ctx.transition()
        got = call(f, fname, kwf)
        exp = [call(s, fname, kws) for s in parts]
        ctx.outcome(f'{tag}:{got[0]}')
        if (has_missing or len({repr(e) for e in exp}) > 1) and parts:
            ctx.nontriv((kinds, nrows, tag, axis, skipna))
        if not parts:
            # reducing along an axis whose other side is empty: an empty Series labelled by nothing (or an error) is expected
            if got[0] == 'ok' and len(got[1]) != 0:
                ctx.violation(f'{tag}|axis={axis}|non-empty-result-for-empty-axis', **info, got=repr(got[1]))
            continue
        any_err = any(e[0] == 'err' for e in exp)
        if any_err:
            if all(e[0] == 'err' for e in exp):
                if got[0] == 'ok':
                    # every per-Series call is rejected, the Frame call answers: what does it answer with?
                    vals = got[1].values.tolist()
                    ctx.violation(f'{tag}|axis={axis}|skipna={skipna}|frame-answers-where-every-series-raises|{fl}',
                                  **info, got=vals, expected=[e[1] for e in exp])
            # mixed: some columns defined, some not: whether the whole call fails is not fixed by the statement
            continue
        if got[0] == 'err':
            ctx.violation(f'{tag}|axis={axis}|skipna={skipna}|frame-raises-{got[1]}-where-series-do-not|{fl}', **info, expected=[repr(e[1]) for e in exp])
            continue
        res = got[1]
        if not isinstance(res, sf.Series) or res.index.values.tolist() != labels:
            ctx.violation(f'{tag}|axis={axis}|labels', **info, got=repr(res))
            continue
        gv = list(res.values)
        ev = [e[1] for e in exp]
        # second, independent oracle for plain numeric data: the NumPy function on the column / row values themselves (the per-Series call shares
        # the reduction front-end with the Frame, so a defect there would be invisible to the first oracle)
        if set(kinds) <= {'int', 'int8', 'intwide', 'float', 'floatnan'} and nrows >= 1 and fname in NPF:
            with np.errstate(all='ignore'):
                import warnings
                with warnings.catch_warnings():
                    warnings.simplefilter('ignore')
                    nv = [NPF[fname][0 if skipna else 1](np.asarray(p.values, dtype=float), **kw) for p in parts]
            badn = [j for j, (g, e) in enumerate(zip(gv, nv)) if not close(g, e)]
            if badn:
                j = badn[0]
                ctx.violation(f'{tag}|axis={axis}|skipna={skipna}|differs-from-numpy-on-values|{fl}', **info, label=labels[j], got=norm(gv[j]), expected=norm(nv[j]))
                continue
        bad = [j for j, (g, e) in enumerate(zip(gv, ev)) if not close(g, e)]
        if bad:
            j = bad[0]
            g_, e_ = norm(gv[j]), norm(ev[j])
            if e_[1:] == ('nan',) and g_[1:] != ('nan',):
                sigv = 'nan-expected-got-number'
            elif g_[1:] == ('nan',):
                sigv = 'number-expected-got-nan'
            elif g_[0] == 'b' and e_[0] != 'b':
                sigv = 'got-bool-expected-number'
            elif g_[0] == 'b' and e_[0] == 'b':
                sigv = 'bool-differs'
            else:
                sigv = 'number-differs'
            ctx.violation(f'{tag}|axis={axis}|skipna={skipna}|value:{sigv}|{fl}', **info,
                          label=labels[j], got=norm(gv[j]), expected=norm(ev[j]))
    for fname, axis, skipna in itertools.product(CUM, (0, 1), (True, False)):
        if not defined(fname, kinds, axis):
            continue
        parts = col_series if axis == 0 else row_series
        fl = flags(kinds, nrows, axis, pycols if axis == 0 else [[c[i] for c in pycols] for i in range(nrows)])
        info = dict(kinds=kinds, nrows=nrows, layout=sig, func=fname, axis=axis, skipna=skipna)
        ctx.transition()
        got = call(f, fname, dict(axis=axis, skipna=skipna))
        exp = [call(s, fname, dict(skipna=skipna)) for s in parts]
        if any(e[0] == 'err' for e in exp) or not parts:
            continue
        if got[0] == 'err':
            ctx.violation(f'{fname}|axis={axis}|skipna={skipna}|frame-raises-{got[1]}|{fl}', **info)
            continue
        res = got[1]
        if not isinstance(res, sf.Frame) or res.shape != f.shape or res.index.values.tolist() != index or res.columns.values.tolist() != columns:
            ctx.violation(f'{fname}|axis={axis}|shape-or-labels', **info, got=repr(res))
            continue
        rc = columns_of(res)
        # second, independent oracle for plain numeric data (the per-Series call shares the front-end with the Frame): NumPy's cumulative function on the values;
        # with skipna a missing cell counts as the neutral element, without it every later cell of that column / row is missing too
        if set(kinds) <= {'int', 'int8', 'intwide', 'float', 'floatnan'} and nrows >= 1:
            npf = {('cumsum', True): np.nancumsum, ('cumsum', False): np.cumsum, ('cumprod', True): np.nancumprod, ('cumprod', False): np.cumprod}[(fname, skipna)]
            badp = None
            for p, part in enumerate(parts):
                with np.errstate(all='ignore'):
                    nvp = npf(np.asarray(part.values, dtype=float))
                gotp = [rc[p][i] for i in range(nrows)] if axis == 0 else [rc[j][p] for j in range(ncols)]
                if not all(close(g, x) for g, x in zip(gotp, nvp.tolist())):
                    badp = (p, gotp, nvp.tolist())
                    break
            if badp:
                ctx.violation(f'{fname}|axis={axis}|skipna={skipna}|differs-from-numpy-on-values|{fl}', **info, part=badp[0], got=[norm(x) for x in badp[1]], expected=[norm(x) for x in badp[2]])
                continue
        for p, e in enumerate(exp):
            gotp = [rc[p][i] for i in range(nrows)] if axis == 0 else [rc[j][p] for j in range(ncols)]
            if not all(close(g, x) for g, x in zip(gotp, list(e[1].values))):
                ctx.violation(f'{fname}|axis={axis}|skipna={skipna}|value|{fl}', **info, part=p,
                              got=[norm(x) for x in gotp], expected=[norm(x) for x in e[1].values])
                break
    # the same table grown in place, column by column (narrow dtypes may come before wider ones of the same kind): every reduction agrees with the
    # Frame built at once.  One growth order per case (the layout index picks a rotation of the columns' arrival order is not needed: labels stay).
    if li == 0 and ncols:
        g = sf.FrameGO(index=index, name='fn')
        for cname, a in zip(columns, arrays):
            g[cname] = a
        for (fname, kw), axis, skipna in itertools.product(FUNCS + [(c, {}) for c in CUM], (0, 1), (True, False)):
            if not defined(fname, kinds, axis):
                continue
            kwf = dict(kw, axis=axis, skipna=skipna)
            ctx.transition()
            a_, b_ = call(f, fname, kwf), call(g, fname, kwf)
            same_ = a_[0] == b_[0] and (a_[0] == 'err' and a_[1] == b_[1] or a_[0] == 'ok' and a_[1].shape == b_[1].shape
                                          and all(close(x, y) for x, y in zip(np.asarray(a_[1].values, dtype=object).ravel().tolist(), np.asarray(b_[1].values, dtype=object).ravel().tolist())))
            if not same_:
                ctx.violation(f'{fname}|axis={axis}|skipna={skipna}|grown-FrameGO-differs-from-Frame', kinds=kinds, nrows=nrows, func=fname,
                              frame=repr(a_[1].values.tolist() if a_[0] == 'ok' else a_), grown=repr(b_[1].values.tolist() if b_[0] == 'ok' else b_))
    ctx.sample({'kinds': kinds, 'nrows': nrows, 'layout': sig}, limit=1)
