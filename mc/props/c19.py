"""C19 Quilt and Batch are faithful views over the Frames they hold.

Modes P + H.  (P) Buses of 1..3 Frames (uneven lengths, two layouts, both axes,
retain_labels on/off, in-memory and store-backed with max_persist None / 1) are
wrapped in a Quilt; every operation of a menu (shape, labels, values, positional
and label selection with the C04 key universe on both axes, iterators, windows,
export) is applied to the Quilt and to the Frame obtained by concatenating the
Bus's Frames, and the two deep outcomes must agree.  (H) every chain of <= 2
Batch operations is compared, label by label, with the same operations applied to
each Frame, and to_frame with the concatenation of exactly those results.
"""
import itertools
import os

import numpy as np

import static_frame as sf
from static_frame.core.exception import NotImplementedAxis
from mc import universe as U
from mc.observe import norm, snap
from mc.props.c04 import key_repr, pos_keys
from mc.props.c17 import workdir

from mc.observe import columns_of  # noqa: E402
PROPERTY_ID = 'C19'
MODE = 'P + H (differential enumeration: Quilt operation vs the same operation on the concatenated Frame; Batch chains vs per-Frame application)'
RULE = ('Quilt case = (number of frames, axis, retain_labels, layout, backing): every operation instance is applied to the Quilt and to the reference Frame; '
        'Batch case = (first operation): all chains of depth <= 2; non-trivial = operation whose key spans two member frames or selects a proper subset; '
        'states = distinct (bus configuration, operation) pairs; transitions = operations compared')
ASSUMPTIONS = [
    'the reference Frame is Frame.from_concat (retain_labels off) or Frame.from_concat_items (on) of the Bus frames: concatenation itself is C11',
    'an operation the Quilt explicitly refuses with NotImplementedAxis (iteration across member frames) is not compared',
    'outcomes are compared as deep snapshots (labels, values, per-column dtype kind); exception classes are compared as "raises / does not raise"',
]


def member(i, n, axis, li, kinds='uniform'):
    '''frame i of the bus: n entries along the quilt axis, 3 along the other; columns typed int / float / str'''
    along = ['%s%d' % ('abc'[i], j) for j in range(n)]
    other = ['p', 'q', 'r']
    if kinds == 'int-str-int' and i % 2 == 1:
        # a member of another kind between two alike: every cell a str
        if axis == 0:
            cols = [U.frozen(np.array(['t%d%d%d' % (i, j, k) for j in range(n)], dtype='<U5')) for k in range(3)]
            lays = list(U.layouts(cols))
            sig, blocks = lays[0] if li == 0 else lays[-1]
            return U.frame_from_blocks(blocks, n, index=along, columns=other, name='f%d' % i)
        cols = [U.frozen(np.array(['t%d%d%d' % (i, j, k) for k in range(3)], dtype='<U5')) for j in range(n)]
        lays = list(U.layouts(cols))
        sig, blocks = lays[0] if li == 0 else lays[-1]
        return U.frame_from_blocks(blocks, 3, index=other, columns=along, name='f%d' % i)
    if kinds == 'int-str-int' and axis == 0:
        cols = [U.frozen(np.array([100 * i + 10 * j + k for j in range(n)], dtype=np.int64)) for k in range(3)]
        lays = list(U.layouts(cols))
        sig, blocks = lays[0] if li == 0 else lays[-1]
        return U.frame_from_blocks(blocks, n, index=along, columns=other, name='f%d' % i)
    if axis == 0:
        cols = [U.frozen(np.array([100 * i + 10 * j + 0 for j in range(n)], dtype=np.int64)), U.frozen(np.array([100 * i + 10 * j + 1 for j in range(n)], dtype=np.int64)),
                U.frozen(np.array(['s%d%d' % (i, j) for j in range(n)], dtype='<U4'))]
        lays = list(U.layouts(cols))
        sig, blocks = lays[0] if li == 0 else lays[-1]
        return U.frame_from_blocks(blocks, n, index=along, columns=other, name='f%d' % i)
    if kinds == 'mixed-columns':
        # axis 1: the columns of ONE member differ in dtype (int64 / float64 / text), so a member-wide array would change a column's type
        dts = ['int64', 'float64', '<U4']
        cols = [U.frozen(np.array([100 * i + 10 * j + k for k in range(3)]).astype(dts[(i + j) % 3])) for j in range(n)]
        lays = list(U.layouts(cols))
        sig, blocks = lays[0] if li == 0 else lays[-1]
        return U.frame_from_blocks(blocks, 3, index=other, columns=along, name='f%d' % i)
    cols = [U.frozen(np.array([100 * i + 10 * j + k for k in range(3)], dtype=np.int64)) for j in range(n)]
    lays = list(U.layouts(cols))
    sig, blocks = lays[0] if li == 0 else lays[-1]
    return U.frame_from_blocks(blocks, 3, index=other, columns=along, name='f%d' % i)


def make_bus(sizes, axis, li, backing, kinds='uniform'):
    frames = [member(i, n, axis, li, kinds) for i, n in enumerate(sizes)]
    if backing == 'memory':
        return sf.Bus.from_frames(frames, name='bus'), frames
    path = os.path.join(workdir(), 'c19_%s_%d_%d_%s.zip' % ('-'.join(map(str, sizes)), axis, li, kinds))
    if not os.path.exists(path):
        sf.Bus.from_frames(frames, name='bus').to_zip_pickle(path)
    return sf.Bus.from_zip_pickle(path, max_persist=None if backing == 'store' else 1), frames


def scope(tier):
    if tier == 'quick':
        return dict(sizes=[(2,), (1, 2), (3, 1), (2, 3, 1)], backings=('memory', 'store-mp1'))
    return dict(sizes=[(1,), (3,), (1, 2), (2, 1), (3, 1), (2, 2), (2, 2, 1), (1, 3, 2), (1, 1, 1)], backings=('memory', 'store', 'store-mp1'))


def cases(tier):
    sc = scope(tier)
    for sizes in sc['sizes']:
        for axis in (0, 1):
            for retain in (True, False):
                for li in (0, 1):
                    for backing in sc['backings']:
                        yield ('quilt', sizes, axis, retain, li, backing)
                        if len(sizes) >= 3 and backing == 'memory':
                            yield ('quilt', sizes, axis, retain, li, backing, 'int-str-int')
                        if axis == 1 and backing == 'memory' and max(sizes) >= 2:
                            yield ('quilt', sizes, axis, retain, li, backing, 'mixed-columns')
    for first in range(len(BATCH_OPS)):
        for workers in (None,):
            yield ('batch', first)
            yield ('batch', first, 'FrameGO')
            yield ('batch', first, 'FrameHE')
            yield ('batch', first, 'with-empty-member')


def universe(tier):
    sc = scope(tier)
    return dict(member_sizes=[list(s) for s in sc['sizes']], backings=list(sc['backings']), batch_ops=[n for n, _ in BATCH_OPS])


def outcome(fn):
    try:
        r = fn()
    except NotImplementedAxis:
        return ('refused',)
    except Exception as e:
        return ('raises', type(e).__name__)
    return coarse(snapany(r))


def snapany(r):
    if isinstance(r, (sf.Frame, sf.Series, sf.Index, sf.IndexHierarchy, np.ndarray)):
        return snap(r)
    if isinstance(r, (tuple, list)):
        return tuple(snapany(x) for x in r)
    if hasattr(r, '__iter__') and not isinstance(r, (str, bytes)):
        return tuple(snapany(x) for x in r)
    return norm(r)


def _kind(d):
    try:
        return np.dtype(d).kind
    except Exception:
        return d


def coarse(o):
    '''drop exact dtype strings / class names of index objects: a Quilt builds its labels lazily and may type them differently'''
    if isinstance(o, tuple):
        if o and o[0] in ('I', 'IH'):
            return ('labels', coarse(o[-1]))
        if o and o[0] == 'S' and len(o) == 6:
            return ('S', o[2], coarse(o[4]), coarse(o[5]))
        if o and o[0] == 'F' and len(o) == 7:
            return ('F', o[3], coarse(o[4]), coarse(o[5]), tuple(coarse(c[1]) for c in o[6]))
        if o and o[0] == 'A' and len(o) == 4:
            return ('A', o[2], coarse(o[3]))
        if len(o) == 2 and o[0] in ('i', 'f') and not isinstance(o[1], tuple):
            return ('num', float(o[1])) if o[1] != 'nan' else ('num', 'nan')
        return tuple(coarse(x) for x in o)
    return o


def quilt_ops(total, nother, axis, labels_along, retain):
    '''operation instances as (name, class, callable(container))'''
    ops = [('shape', 'attr', lambda c: c.shape), ('index', 'attr', lambda c: c.index), ('columns', 'attr', lambda c: c.columns), ('values', 'attr', lambda c: c.values),
           ('size', 'attr', lambda c: c.size), ('to_frame', 'export', lambda c: c.to_frame() if hasattr(c, 'to_frame') and not isinstance(c, sf.Frame) else c),
           ('head(2)', 'select', lambda c: c.head(2)), ('tail(2)', 'select', lambda c: c.tail(2))]
    n_r, n_c = (total, nother) if axis == 0 else (nother, total)
    for kname, k in pos_keys(n_r, full=False):
        ops.append((f'iloc[{key_repr(k)}]', 'iloc-rows:' + kname, lambda c, k=k: c.iloc[k]))
    for kname, k in pos_keys(n_c, full=False):
        ops.append((f'iloc[:,{key_repr(k)}]', 'iloc-cols:' + kname, lambda c, k=k: c.iloc[:, k]))
    for (rn, r), (cn, cc) in itertools.product([('int', 0), ('int', n_r - 1), ('slice', slice(1, None)), ('list', [0, n_r - 1] if n_r > 1 else [0]), ('slice', slice(None, None, 2))],
                                                [('int', 0), ('int', n_c - 1), ('slice', slice(1, None)), ('list', [0, n_c - 1] if n_c > 1 else [0]), ('mask', np.array([j % 2 == 0 for j in range(n_c)]))]):
        ops.append((f'iloc[{key_repr(r)},{key_repr(cc)}]', f'iloc-both:{rn}x{cn}', lambda c, r=r, cc=cc: c.iloc[r, cc]))
    other_labels = ['p', 'q', 'r']
    along_keys = []
    if retain:
        along_keys = [('tuple-list', [labels_along[0]]), ('tuple-list', [labels_along[0], labels_along[-1]]), ('hloc-outer', sf.HLoc[labels_along[0][0]]),
                      ('hloc-last-outer', sf.HLoc[labels_along[-1][0]]), ('hloc-inner', sf.HLoc[:, labels_along[-1][1]]), ('tuple-slice', slice(labels_along[0], labels_along[-1]))]
    else:
        along_keys = [('label', labels_along[0]), ('label', labels_along[-1]), ('label-list', [labels_along[0], labels_along[-1]]), ('label-slice', slice(labels_along[0], labels_along[-1])),
                      ('label-slice-open', slice(labels_along[-1], None)), ('absent-label', 'zz'), ('mask', np.array([i % 2 == 0 for i in range(total)]))]
    other_keys = [('label', 'q'), ('label-list', ['p', 'r']), ('label-slice', slice('q', None)), ('absent-label', 'zz')]
    for kn, k in along_keys:
        if axis == 0:
            ops.append((f'loc[{kn}:{key_repr(k) if not isinstance(k, sf.HLoc) else "HLoc"}]', 'loc-along:' + kn, lambda c, k=k: c.loc[k]))
        else:
            ops.append((f'loc[:,{kn}]', 'loc-along:' + kn, lambda c, k=k: c.loc[:, k]))
            ops.append((f'getitem[{kn}]', 'getitem-along:' + kn, lambda c, k=k: c[k]))
    for kn, k in other_keys:
        if axis == 0:
            ops.append((f'loc[:,{kn}:{key_repr(k)}]', 'loc-other:' + kn, lambda c, k=k: c.loc[:, k]))
            ops.append((f'getitem[{kn}:{key_repr(k)}]', 'getitem-other:' + kn, lambda c, k=k: c[k]))
        else:
            ops.append((f'loc[{kn}:{key_repr(k)}]', 'loc-other:' + kn, lambda c, k=k: c.loc[k]))
    for ax in (0, 1):
        ops.append((f'iter_array({ax})', 'iter', lambda c, ax=ax: tuple(c.iter_array(axis=ax))))
        ops.append((f'iter_array_items({ax})', 'iter', lambda c, ax=ax: tuple(c.iter_array_items(axis=ax))))
        ops.append((f'iter_series({ax})', 'iter', lambda c, ax=ax: tuple(c.iter_series(axis=ax))))
        ops.append((f'iter_tuple({ax})', 'iter', lambda c, ax=ax: tuple(tuple(t) for t in c.iter_tuple(axis=ax))))
        ops.append((f'iter_window_items(2,{ax})', 'window', lambda c, ax=ax: tuple(c.iter_window_items(size=2, axis=ax))))
        ops.append((f'iter_window_array(2,step2,{ax})', 'window', lambda c, ax=ax: tuple(c.iter_window_array(size=2, step=2, axis=ax))))
        # the function-application forms: what the function is handed (class and shape of each window) and the labelled result
        describe = lambda w: type(w).__name__ + repr(getattr(w, 'shape', None))
        describe_items = lambda k, w: repr(k) + type(w).__name__ + repr(getattr(w, 'shape', None))
        for meth in ('iter_window', 'iter_window_array'):
            ops.append((f'{meth}(2,{ax}).apply', 'window', lambda c, ax=ax, meth=meth: getattr(c, meth)(size=2, axis=ax).apply(describe)))
            ops.append((f'{meth}(2,{ax}).apply_iter', 'window', lambda c, ax=ax, meth=meth: tuple(getattr(c, meth)(size=2, axis=ax).apply_iter(describe))))
            ops.append((f'{meth}(2,{ax}).apply_iter_items', 'window', lambda c, ax=ax, meth=meth: tuple(getattr(c, meth)(size=2, axis=ax).apply_iter_items(describe))))
            ops.append((f'{meth}_items(2,{ax}).apply', 'window', lambda c, ax=ax, meth=meth: getattr(c, meth + '_items')(size=2, axis=ax).apply(describe_items)))
        ops.append((f'iter_window_array(2,{ax}).apply(sum)', 'window', lambda c, ax=ax: c.iter_window_array(size=2, axis=ax).apply(lambda w: repr([[float(x) if isinstance(x, (int, float)) and not isinstance(x, bool) else x for x in r] for r in w.tolist()]))))
        # values forms with a label shift (the shift decides which windows have a valid anchor, also when no label is delivered)
        for ls in (1, -1):
            ops.append((f'iter_window(2,label_shift={ls},{ax})', 'window', lambda c, ax=ax, ls=ls: tuple(c.iter_window(size=2, label_shift=ls, axis=ax))))
            ops.append((f'iter_window_array(2,label_shift={ls},{ax})', 'window', lambda c, ax=ax, ls=ls: tuple(c.iter_window_array(size=2, label_shift=ls, axis=ax))))
            ops.append((f'iter_window_items(2,label_shift={ls},{ax})', 'window', lambda c, ax=ax, ls=ls: tuple(c.iter_window_items(size=2, label_shift=ls, axis=ax))))
        n_ax = (n_r, n_c)[ax]
        for size in sorted({3, max(1, n_ax - 1), n_ax}):
            if size <= n_ax:
                ops.append((f'iter_window_array_items({size},{ax})', 'window', lambda c, ax=ax, size=size: tuple(c.iter_window_array_items(size=size, axis=ax))))
                ops.append((f'iter_window({size},{ax})', 'window', lambda c, ax=ax, size=size: tuple(c.iter_window(size=size, axis=ax))))
    return ops


def run_quilt(case, ctx):
    _, sizes, axis, retain, li, backing = case[:6]
    kinds = case[6] if len(case) > 6 else 'uniform'
    bus, frames = make_bus(sizes, axis, li, backing, kinds)
    total = sum(sizes)
    if retain:
        ref = sf.Frame.from_concat_items([(f.name, f) for f in frames], axis=axis)
    else:
        ref = sf.Frame.from_concat(frames, axis=axis)
    ref = ref.rename('bus')
    labels_along = [tuple(x) if retain else x for x in (ref.index if axis == 0 else ref.columns)]
    info = dict(sizes=sizes, axis=axis, retain_labels=retain, layout=li, backing=backing, member_kinds=kinds)
    if axis == 1:
        # a column of an axis-1 Quilt lies wholly inside one member: iterated by column it has that member column's dtype (not a member-wide or Quilt-wide one)
        bus, frames_ = make_bus(sizes, axis, li, backing, kinds)
        q = sf.Quilt(bus, axis=axis, retain_labels=retain)
        want = [str(a.dtype) for f in frames_ for a in columns_of(f)]
        for how, get in (('iter_array(0)', lambda: [str(a.dtype) for a in q.iter_array(axis=0)]), ('iter_array_items(0)', lambda: [str(a.dtype) for _, a in q.iter_array_items(axis=0)]),
                         ('iter_series(0)', lambda: [str(s_.dtype) for s_ in q.iter_series(axis=0)]), ('items()', lambda: [str(s_.dtype) for _, s_ in q.items()])):
            ctx.transition()
            try:
                got_ = get()
            except NotImplementedAxis:
                continue
            except Exception as e:
                ctx.violation(f'quilt|column-dtypes|{how}|raises-{type(e).__name__}', **info, error=repr(e))
                continue
            if got_ != want:
                ctx.violation(f'quilt|column-dtypes|{how}', **info, got=got_, expected=want)
    for name, klass, fn in quilt_ops(total, 3, axis, labels_along, retain):
        bus, _ = make_bus(sizes, axis, li, backing, kinds)    # a fresh bus per operation: loading state must not matter, and is varied by the menu order otherwise
        q = sf.Quilt(bus, axis=axis, retain_labels=retain)
        ctx.transition()
        ctx.state((sizes, axis, retain, li, backing, kinds, name))
        got = outcome(lambda: fn(q))
        exp = outcome(lambda: fn(ref))
        # the same operation through a renamed Quilt (derived before / after the source has realised its labels): a Quilt over the same Bus on the same axis
        if backing == 'memory':
            for when in ('rename-first', 'rename-after-shape'):
                bus2, _ = make_bus(sizes, axis, li, backing, kinds)
                q0 = sf.Quilt(bus2, axis=axis, retain_labels=retain)
                if when == 'rename-after-shape':
                    q0.shape
                ctx.transition()
                got2 = outcome(lambda: fn(q0.rename('renamed')))
                exp2 = outcome(lambda: fn(ref.rename('renamed')))
                both_err = isinstance(got2, tuple) and isinstance(exp2, tuple) and got2[:1] == ('raises',) and exp2[:1] == ('raises',)
                if got2 != exp2 and not both_err and got2 != ('refused',) and (got == exp):
                    ctx.violation(f'quilt|{klass}|renamed-quilt-differs|{when}', **info, operation=name, got=repr(got2)[:300], expected=repr(exp2)[:300])
                    break
        if got == ('refused',):
            ctx.outcome('refused')
            continue
        if len(sizes) > 1:
            ctx.nontriv((sizes, axis, retain, name))
        is_err = lambda o: isinstance(o, tuple) and len(o) == 2 and o[0] == 'raises'
        ctx.outcome('raises' if is_err(got) else 'ok')
        if got != exp:
            if is_err(got) and is_err(exp):
                continue   # both refuse (e.g. an absent label): the class of the error is not compared
            sig = 'values'
            if is_err(got):
                sig = f'quilt-raises-{got[1]}'
            elif is_err(exp):
                sig = 'quilt-answers-where-frame-raises'
            else:
                # same cells, different order?
                def flat(o, acc):
                    if isinstance(o, tuple):
                        for x in o:
                            flat(x, acc)
                    else:
                        acc.append(repr(o))
                    return acc
                if sorted(flat(got, [])) == sorted(flat(exp, [])):
                    sig = 'same-cells-different-order'
            ctx.violation(f'quilt|{klass}|{sig}', **info, operation=name, got=repr(got)[:500], expected=repr(exp)[:500])
    ctx.sample({'family': 'quilt', **{k: (list(v) if isinstance(v, tuple) else v) for k, v in info.items()}}, limit=1)


# ------------------------------------------------------------------ batch
BATCH_OPS = [
    ('iloc[:1]', lambda x: x.iloc[:1]),
    ('iloc[:, 1:]', lambda x: x.iloc[:, 1:]),
    ('loc[:, [q, p]]', lambda x: x.loc[:, ['q', 'p']]),
    ('getitem[p]', lambda x: x['p']),
    ('head(1)', lambda x: x.head(1)),
    ('sum(0)', lambda x: x.sum(axis=0)),
    ('max(1)', lambda x: x.max(axis=1)),
    ('mean(0)', lambda x: x.mean(axis=0)),
    ('count', lambda x: x.count()),
    ('cumsum', lambda x: x.cumsum()),
    ('shift(1)', lambda x: x.shift(1)),
    ('roll(1)', lambda x: x.roll(1)),
    ('transpose', lambda x: x.transpose()),
    ('sort_index(desc)', lambda x: x.sort_index(ascending=False)),
    ('clip', lambda x: x.clip(lower=3, upper=200)),
    ('isin', lambda x: x.isin((3, 104))),
    ('drop[p]', lambda x: x.drop['p']),
    ('apply(double)', 'apply'),
    ('apply_items(label-len)', 'apply_items'),
    ('apply_except(one-row-frames-fail)', 'apply_except'),
    ('apply_items_except(label-y-fails)', 'apply_items_except'),
]
DROP = object()


def _fail_one_row(f):
    if f.shape[0] == 1:
        raise ValueError('one row')
    return f * 2


def _fail_label_y(k, f):
    if k == 'y':
        raise ValueError('label y')
    return f.iloc[:, :len(k) + 1]



def batch_frames():
    f1 = sf.Frame.from_records([[1, 2.5, 3], [4, 5.5, 6]], index=('a', 'b'), columns=('p', 'q', 'r'), name='x')
    f2 = sf.Frame.from_records([[101, 102.5, 103]], index=('c',), columns=('p', 'q', 'r'), name='y')
    f3 = sf.Frame.from_records([[7, 8.5, 9], [104, 11.5, 12], [13, 14.5, 15]], index=('d', 'e', 'f'), columns=('p', 'q', 'r'), name='z')
    return [f1, f2, f3]


def apply_op(op, target, is_batch, label=None):
    name, fn = op
    if fn == 'apply':
        return target.apply(lambda f: f * 2) if is_batch else target * 2
    if fn in ('apply_except', 'apply_items_except'):
        # a Frame for which the function raises the named exception is dropped from the result; the others are unaffected
        if is_batch:
            return target.apply_except(_fail_one_row, ValueError) if fn == 'apply_except' else target.apply_items_except(_fail_label_y, ValueError)
        try:
            return _fail_one_row(target) if fn == 'apply_except' else _fail_label_y(label, target)
        except ValueError:
            return DROP
    if fn == 'apply_items':
        return target.apply_items(lambda k, f: f.iloc[:, :len(k)]) if is_batch else target.iloc[:, :len(label)]
    return fn(target)


def run_batch(case, ctx):
    first = case[1]
    klass = case[2] if len(case) > 2 else 'Frame'
    frames = batch_frames()
    if klass == 'with-empty-member':
        # a member without rows (as a filter that matched nothing leaves): every operation still applies to it
        frames = frames[:1] + [frames[1].iloc[:0].rename('y')] + frames[2:]
    elif klass != 'Frame':
        # grow-only / hashable members: the Batch treats every Frame subclass (and Series subclass result) as a container, not as an opaque element
        frames = [f.to_frame_go() if klass == 'FrameGO' else f.to_frame_he() for f in frames]
    for second in [None] + list(range(len(BATCH_OPS))):
        chain = [BATCH_OPS[first]] + ([BATCH_OPS[second]] if second is not None else [])
        names = [c[0] for c in chain]
        ctx.transition()
        ctx.state(('batch', klass, tuple(names)))
        ctx.nontriv(('batch', klass, tuple(names)))
        info = dict(chain=names, member_class=klass)
        # reference: per frame
        exp = {}
        exp_err = None
        for f in frames:
            try:
                r = f
                for op in chain:
                    if not isinstance(r, sf.Frame):
                        raise StopIteration    # a Batch holds Frames: a chain is followed only while every member is still a Frame
                    r = apply_op(op, r, False, f.name)
                    if r is DROP:
                        break
                if r is not DROP:
                    exp[f.name] = r
            except StopIteration:
                exp_err = 'skip'
                break
            except Exception as e:
                exp_err = type(e).__name__
                break
        if exp_err == 'skip':
            continue
        try:
            b = sf.Batch.from_frames(frames)
            for op in chain:
                b = apply_op(op, b, True)
            got = dict(b.items())
            got_err = None
        except Exception as e:
            got, got_err = None, type(e).__name__
        if exp_err or got_err:
            if bool(exp_err) != bool(got_err):
                ctx.violation(f'batch|{"batch" if got_err else "frames"}-raise-only', **info, batch_error=got_err, frame_error=exp_err)
            continue
        if list(got) != list(exp):
            ctx.violation('batch|labels', **info, got=list(got))
            continue
        bad = [k for k in exp if coarse(snapany(got[k])) != coarse(snapany(exp[k]))]
        if bad:
            ctx.violation(f'batch|per-label-result|{names[-1]}', **info, label=bad[0], got=repr(coarse(snapany(got[bad[0]])))[:400], expected=repr(coarse(snapany(exp[bad[0]])))[:400])
            continue
        # export: to_frame concatenates exactly those results; to_bus holds them
        if all(isinstance(v, (sf.Frame, sf.Series)) for v in exp.values()):
            try:
                b = sf.Batch.from_frames(frames)
                for op in chain:
                    b = apply_op(op, b, True)
                # the reference concatenation first: where the concatenation of those results is itself refused (e.g. a member without rows under
                # two-level labels), the export is compared only when the Batch does produce a Frame
                try:
                    if all(isinstance(v, sf.Frame) for v in exp.values()):
                        ref = sf.Frame.from_concat_items(exp.items(), axis=0)
                    else:
                        ref = sf.Frame.from_concat(tuple(v.rename(k) for k, v in exp.items()), axis=0)
                except Exception:
                    ref = None
                try:
                    tf = b.to_frame()
                except Exception:
                    if ref is None:
                        continue
                    raise
                if ref is None:
                    continue
                if coarse(snapany(tf)) != coarse(snapany(ref)):
                    ctx.violation(f'batch|to_frame|{names[-1]}', **info, got=repr(coarse(snapany(tf)))[:400], expected=repr(coarse(snapany(ref)))[:400])
                # 1-D results side by side (axis 1), with and without explicit labels on the other axis
                if all(isinstance(v, sf.Series) for v in exp.values()) and len({tuple(v.index.values.tolist()) for v in exp.values()}) == 1:
                    ser = list(exp.values())
                    ref1 = sf.Frame.from_concat(tuple(v.rename(k) for k, v in exp.items()), axis=1)
                    variants = [('axis=1', dict(axis=1), ref1),
                                ('axis=1,index', dict(axis=1, index=ser[0].index), ref1),
                                ('axis=1,columns', dict(axis=1, columns=['u%d' % i for i in range(len(ser))]), ref1.relabel(columns=['u%d' % i for i in range(len(ser))]))]
                    for vn, kw, rf in variants:
                        b = sf.Batch.from_frames(frames)
                        for op in chain:
                            b = apply_op(op, b, True)
                        try:
                            t1 = b.to_frame(**kw)
                            if coarse(snapany(t1)) != coarse(snapany(rf)):
                                ctx.violation(f'batch|to_frame({vn})|{names[-1]}', **info, got=repr(coarse(snapany(t1)))[:300], expected=repr(coarse(snapany(rf)))[:300])
                        except Exception as e:
                            ctx.violation(f'batch|to_frame({vn})|raises-{type(e).__name__}', **info, error=repr(e))
                if all(isinstance(v, sf.Frame) for v in exp.values()):
                    b = sf.Batch.from_frames(frames)
                    for op in chain:
                        b = apply_op(op, b, True)
                    bus = b.to_bus()
                    if list(bus.keys()) != list(exp) or any(coarse(snapany(bus[k])) != coarse(snapany(exp[k])) for k in exp):
                        ctx.violation(f'batch|to_bus|{names[-1]}', **info)
            except Exception as e:
                ctx.violation(f'batch|export-raises-{type(e).__name__}|{names[-1]}', **info, error=repr(e))
    ctx.sample({'family': 'batch', 'first': BATCH_OPS[first][0]}, limit=1)


def run_case(case, ctx):
    (run_quilt if case[0] == 'quilt' else run_batch)(case, ctx)
