"""C17 Bus and multi-table stores: faithful, lazy, bounded, and stale-file safe.

Modes H + F.  For each store format (zip-pickle, zip-csv, zip-tsv, sqlite) and
each max_persist in {None, 1..n}: every access history of bounded depth
(single label, list, slice, Boolean, iloc, items(), values, iteration, get,
status properties, derivations that continue on the derived Bus) is replayed on
a fresh Bus opened on a fresh copy of the store file; every Frame handed back is
compared with what an eager load returns, the loaded set is compared with an LRU
model, and at every point of every history each file fault (mtime touch,
rewrite, replacement by an older file, deletion) is injected and the next
event is required to raise the store-mutation error iff it must read the store.
A write -> open round trip is checked for every format.
"""
import itertools
import os
import shutil
import tempfile

import numpy as np

import static_frame as sf
from static_frame.core.bus import FrameDeferred
from static_frame.core.exception import StoreFileMutation

PROPERTY_ID = 'C17'
MODE = 'H + F (explicit-state exploration of access histories replayed on a fresh Bus over a fresh store copy; file faults injected at every history point)'
RULE = ('case = (format, max_persist, first event); all histories of depth <= D over the access events; model = eager frames + set of LRU orders consistent with what was observed; '
        'after every event: returned frames equal the eager frames, label order kept, loaded count <= max_persist, loaded set explained by least-recently-used eviction, '
        'status properties load nothing; fault runs: for each history prefix x each fault the next event raises StoreFileMutation iff it has to read; '
        'non-trivial = history with >= 2 accesses touching different labels; state = (current labels, loaded set, LRU order); transitions = events executed')
ASSUMPTIONS = [
    'a modification of the file changes its mtime (faults set the mtime explicitly; a same-tick rewrite is outside the property and outside this check)',
    'inside one multi-label access the order in which labels are touched is not fixed by the statement: every permutation is an acceptable LRU update (the model keeps the set of orders consistent with the observed loaded sets)',
    'xlsx / hdf5 / parquet stores need libraries that are not installed: not explored',
    'delimited and sqlite stores are compared with the eager load of the same store (type fidelity of one table is C16)',
]


def frames(n):
    f1 = sf.Frame.from_records([[1, 2], [3, 4]], index=('a', 'b'), columns=('p', 'q'), name='t2')
    f2 = sf.Frame.from_records([[1.5, 2.5, 3.5, 4.5], [5.5, np.nan, 7.5, 8.5], [0.5, 1.0, 2.0, 3.0]],
                               index=sf.IndexHierarchy.from_labels([('x', 1), ('x', 2), ('y', 1)], name=('k1', 'k2')), columns=('p', 'q', 'r', 's'), name='t10')
    f3 = sf.Frame.from_records([['u', True, 3]], index=('z',), columns=('t', 'b', 'i'), name='t1')
    f4 = sf.Frame.from_records([[10], [20], [30]], index=('a', 'b', 'c'), columns=('only',), name='t0')
    return [f1, f2, f3, f4][:n]


def config_for(fs):
    return sf.StoreConfigMap({f.name: sf.StoreConfig(index_depth=f.index.depth, columns_depth=1, include_index=True, include_columns=True) for f in fs},
                             default=sf.StoreConfig(index_depth=1))


FORMATS = {
    'zip_pickle': ('to_zip_pickle', 'from_zip_pickle', '.zip', False),
    'zip_csv': ('to_zip_csv', 'from_zip_csv', '.zip', True),
    'zip_tsv': ('to_zip_tsv', 'from_zip_tsv', '.zip', True),
    'sqlite': ('to_sqlite', 'from_sqlite', '.sqlite', True),
}

_TMP = {}


def workdir():
    pid = os.getpid()
    if pid not in _TMP:
        base = '/dev/shm' if os.path.isdir('/dev/shm') else '/var/tmp'
        _TMP[pid] = tempfile.mkdtemp(prefix='sfc17_', dir=base)
        import atexit
        atexit.register(shutil.rmtree, _TMP[pid], True)
    return _TMP[pid]


_STORE = {}


def template(fmt, n):
    '''(path of the pristine store file, eager frames dict, labels, config)'''
    key = (os.getpid(), fmt, n)
    if key not in _STORE:
        to, frm, ext, needs_cfg = FORMATS[fmt]
        fs = frames(n)
        cfg = config_for(fs) if needs_cfg else None
        path = os.path.join(workdir(), f'template_{fmt}_{n}{ext}')
        if os.path.exists(path):
            os.remove(path)
        b = sf.Bus.from_frames(fs, config=cfg, name='bus')
        getattr(b, to)(path, config=cfg)
        os.utime(path, (1_600_000_000, 1_600_000_000))
        eager_bus = getattr(sf.Bus, frm)(path, config=cfg)
        eager = {label: f for label, f in eager_bus.items()}
        alt = os.path.join(workdir(), f'alt_{fmt}_{n}{ext}')
        if os.path.exists(alt):
            os.remove(alt)
        b2 = sf.Bus.from_frames([f.rename(f.name) * 1 if False else f.relabel(columns=lambda c: c + '_alt').rename(f.name) for f in fs], config=cfg, name='bus')
        getattr(b2, to)(alt, config=cfg)
        _STORE[key] = (path, eager, [f.name for f in fs], cfg, alt, fs)
    return _STORE[key]


def open_bus(fmt, n, max_persist, tag='w'):
    path, eager, labels, cfg, alt, fs = template(fmt, n)
    to, frm, ext, needs_cfg = FORMATS[fmt]
    work = os.path.join(workdir(), f'{tag}_{fmt}_{n}{ext}')
    if os.path.exists(work):
        os.remove(work)
    shutil.copyfile(path, work)
    os.utime(work, (1_600_000_000, 1_600_000_000))
    return getattr(sf.Bus, frm)(work, config=cfg, max_persist=max_persist).rename('busname'), work


def events(n):
    ev = []
    for i in range(n):
        ev.append(('get', i))                    # bus[label]
    ev.append(('iloc', n - 1))                   # bus.iloc[k] -> Frame
    ev.append(('loc-list', (n - 1, 0)))          # -> derived Bus (continue on it)
    ev.append(('loc-list-keep', (0, 1) if n > 1 else (0,)))   # access through a selection, keep using the parent
    ev.append(('loc-slice', (0, min(1, n - 1))))
    ev.append(('mask', tuple(i % 2 == 0 for i in range(n))))
    ev.append(('iloc-slice-rev', None))          # bus.iloc[::-1] -> derived
    ev.append(('items', None))
    ev.append(('values', None))
    ev.append(('iter-keys', None))
    ev.append(('get()', n - 1))
    ev.append(('get()-absent', None))
    ev.append(('status', None))
    ev.append(('drop-first', None))              # derived
    ev.append(('reindex-rev', None))             # derived
    ev.append(('sort_index-desc', None))         # derived
    ev.append(('rename', None))                  # derived
    ev.append(('head2', None))                   # derived
    return ev


FAULTS = ('touch-newer', 'touch-older', 'rewrite', 'replace-older', 'delete')


def scope(tier):
    if tier == 'quick':
        return dict(formats=('zip_pickle', 'zip_csv'), n=3, depth=3, fault_depth=1)
    return dict(formats=tuple(FORMATS), n=4, depth=3, fault_depth=2)


def cases(tier):
    sc = scope(tier)
    for fmt in FORMATS:
        yield ('roundtrip', fmt, sc['n'])
    for fmt in sc['formats']:
        for mp in (None,) + tuple(range(1, sc['n'] + 1)):
            for first in range(len(events(sc['n']))):
                yield ('history', fmt, sc['n'], mp, first, sc['depth'])
                yield ('faults', fmt, sc['n'], mp, first, sc['fault_depth'])
    for mp in (1, 2, 3, 5, None):
        yield ('wide-slices', 'zip_pickle', 6, mp)
    for fmt in ('zip_csv', 'zip_tsv', 'sqlite', 'zip_pickle'):
        yield ('encoded-labels', fmt)
        yield ('text-labels', fmt)
    for fmt in ('sqlite', 'zip_pickle'):
        yield ('object-columns', fmt)


def universe(tier):
    sc = scope(tier)
    return dict(formats=list(sc['formats']), frames=sc['n'], depth=sc['depth'], fault_depth=sc['fault_depth'], max_persist=['None'] + list(range(1, sc['n'] + 1)),
                events=[repr(e) for e in events(sc['n'])], faults=list(FAULTS), roundtrip_formats=list(FORMATS))


# ------------------------------------------------------------------ model
class Model:
    '''labels of the current Bus, max_persist, and the set of LRU orders (tuples, least recent first) consistent with the observations.'''

    def __init__(self, labels, mp, loaded_in_order=()):
        self.labels = list(labels)
        self.mp = mp
        self.orders = {tuple(loaded_in_order)}

    def access(self, touched, ambiguous):
        '''touched: labels touched by the event, in key order.  Returns nothing; updates the candidate orders.'''
        new = set()
        perms = list(itertools.permutations(touched)) if (ambiguous and len(touched) <= 4) else [tuple(touched)]
        for order in self.orders:
            for perm in perms:
                o = list(order)
                for lab in perm:
                    if lab in o:
                        o.remove(lab)
                    o.append(lab)
                    if self.mp is not None and len(o) > self.mp:
                        o.pop(0)
                new.add(tuple(o))
        self.orders = new

    def observe(self, loaded_set):
        keep = {o for o in self.orders if set(o) == loaded_set}
        ok = bool(keep)
        if ok:
            self.orders = keep
        return ok


def loaded_set(bus):
    st = bus.status
    return {lab for lab, v in zip(st.index.values.tolist(), st['loaded'].values.tolist()) if v}


def same_frame(a, b):
    return isinstance(a, sf.Frame) and a.equals(b, compare_name=True, compare_dtype=True, compare_class=True)


class Run:
    def __init__(self, ctx, fmt, n, mp, info, tag='w'):
        self.ctx, self.fmt, self.n, self.mp, self.info = ctx, fmt, n, mp, info
        self.path, self.eager, self.all_labels, self.cfg, self.alt, self.fs = template(fmt, n)
        self.bus, self.work = open_bus(fmt, n, mp, tag)
        self.model = Model(self.all_labels, mp)
        self.touched_labels = set()
        self.expected_name = 'busname'

    def frame_ok(self, tag, label, frame):
        if not same_frame(frame, self.eager[label]):
            self.ctx.violation(f'{tag}|frame-differs-from-eager-load', **self.info, label=label,
                               got=repr(getattr(frame, 'shape', frame)) + ' ' + repr(getattr(frame, 'name', None)), expected=repr(self.eager[label].shape))
            return False
        return True

    def after(self, tag):
        '''invariants after an event on the current bus'''
        ls = loaded_set(self.bus)
        if self.bus.name != self.expected_name:
            # what the Bus says about itself (its name) is not a function of what happens to be loaded
            self.ctx.violation(f'{tag}|bus-name-changed-by-access', **self.info, name=repr(self.bus.name), expected=self.expected_name)
            return False
        if self.mp is not None and len(ls) > self.mp:
            self.ctx.violation(f'{tag}|more-than-max_persist-loaded', **self.info, loaded=sorted(ls), max_persist=self.mp)
            return False
        if not self.model.observe(ls):
            self.ctx.violation(f'{tag}|loaded-set-not-explained-by-LRU', **self.info, loaded=sorted(ls), candidates=sorted(self.model.orders)[:6])
            return False
        return True

    def needs_read(self, ev):
        '''must this event read the store, given the model?  None = depends on an unresolved LRU ambiguity'''
        kind, arg = ev
        labs = self.targets(ev)
        if labs is None:
            return False
        answers = set()
        for o in self.model.orders:
            loaded = list(o)
            need = False
            for lab in labs:
                if lab not in loaded:
                    need = True
                    break
            answers.add(need)
        return answers.pop() if len(answers) == 1 else None

    def targets(self, ev):
        kind, arg = ev
        L = self.model.labels
        if kind in ('get', 'get()'):
            return [self.all_labels[arg]] if self.all_labels[arg] in L else None
        if kind == 'iloc':
            return [L[-1]] if L else None
        if kind in ('loc-list', 'loc-list-keep'):
            labs = [self.all_labels[i] for i in arg]
            return labs if all(l in L for l in labs) else None
        if kind == 'loc-slice':
            a, b = self.all_labels[arg[0]], self.all_labels[arg[1]]
            if a in L and b in L and L.index(a) <= L.index(b):
                return L[L.index(a):L.index(b) + 1]
            return None
        if kind == 'mask':
            return [l for l, m in zip(L, arg)] and [l for l, m in zip(L, arg[:len(L)]) if m] if len(L) == len(arg) else None
        if kind in ('items', 'values'):
            return list(L)
        if kind == 'iloc-slice-rev':
            return list(L)[::-1]
        if kind == 'head2':
            return list(L)[:2]
        return []   # iter-keys, get()-absent, status, and the label-only derivations (drop, reindex, sort_index, rename): no frame is accessed

    def apply(self, ev, expect_mutation_error=False):
        '''returns ('ok'|'violation'|'skip'|'mutation-error')'''
        ctx, bus, model = self.ctx, self.bus, self.model
        kind, arg = ev
        tag = f'{self.fmt}|mp={self.mp}|{kind}'
        L = model.labels
        tg = self.targets(ev)
        if tg is None:
            return 'skip'
        try:
            if kind == 'get':
                r = bus[tg[0]]
                model.access(tg, False)
                if not self.frame_ok(tag, tg[0], r):
                    return 'violation'
            elif kind == 'get()':
                r = bus.get(tg[0])
                model.access(tg, False)
                if not self.frame_ok(tag, tg[0], r):
                    return 'violation'
            elif kind == 'get()-absent':
                if bus.get('no-such-label', 'dflt') != 'dflt':
                    ctx.violation(f'{tag}|default-not-returned', **self.info)
                    return 'violation'
            elif kind == 'iloc':
                r = bus.iloc[len(L) - 1]
                model.access(tg, False)
                if not self.frame_ok(tag, tg[0], r):
                    return 'violation'
            elif kind in ('loc-list', 'loc-list-keep', 'loc-slice', 'mask', 'iloc-slice-rev', 'head2'):
                if kind in ('loc-list', 'loc-list-keep'):
                    sel = bus.loc[list(tg)]
                elif kind == 'loc-slice':
                    sel = bus.loc[tg[0]:tg[-1]]
                elif kind == 'mask':
                    sel = bus.loc[np.array(arg[:len(L)], dtype=bool)] if tg else None
                    if sel is None:
                        return 'skip'
                elif kind == 'iloc-slice-rev':
                    sel = bus.iloc[::-1]
                else:
                    sel = bus.head(2)
                if not isinstance(sel, sf.Bus):
                    # a one-label selection through a list / slice may come back as a Bus of one; a bare Frame is a dimensionality error
                    ctx.violation(f'{tag}|selection-not-a-bus', **self.info, got=type(sel).__name__)
                    return 'violation'
                if sel.index.values.tolist() != list(tg):
                    ctx.violation(f'{tag}|selection-labels', **self.info, got=sel.index.values.tolist(), expected=list(tg))
                    return 'violation'
                model.access(tg, True)
                if not self.after(tag + '|parent'):
                    return 'violation'
                # frames held by the returned Bus itself (not re-accessed through it)
                held = sel._series.values
                got_loaded = []
                for lab, fr in zip(tg, held):
                    if fr is FrameDeferred:
                        continue
                    got_loaded.append(lab)
                    if not self.frame_ok(tag + '|held-by-selection', lab, fr):
                        return 'violation'
                if self.mp is not None and len(got_loaded) > self.mp:
                    ctx.violation(f'{tag}|selection-holds-more-than-max_persist', **self.info, held=got_loaded)
                    return 'violation'
                if kind != 'loc-list-keep':
                    self.bus = sel
                    self.model = Model(tg, self.mp, got_loaded)
                return 'ok'
            elif kind == 'items':
                seen = []
                for lab, fr in bus.items():
                    seen.append(lab)
                    if not self.frame_ok(tag, lab, fr):
                        return 'violation'
                if seen != list(L):
                    ctx.violation(f'{tag}|labels', **self.info, got=seen, expected=list(L))
                    return 'violation'
                model.access(tg, False)
            elif kind == 'values':
                vals = bus.values
                if len(vals) != len(L):
                    ctx.violation(f'{tag}|length', **self.info)
                    return 'violation'
                for lab, fr in zip(L, vals):
                    if not self.frame_ok(tag, lab, fr):
                        return 'violation'
                model.access(tg, False)
            elif kind == 'iter-keys':
                if list(bus) != list(L) or list(bus.keys()) != list(L) or len(bus) != len(L):
                    ctx.violation(f'{tag}|labels', **self.info, got=list(bus))
                    return 'violation'
            elif kind == 'status':
                before = loaded_set(bus)
                _ = (bus.status, bus.shapes, bus.dtypes, bus.mloc, bus.nbytes)
                # the descriptive attributes of the Bus itself: none of them needs a Frame
                meta = (bus.shape, bus.size, bus.ndim, bus.dtype, len(bus), bus.name, bus.index.values.tolist(), L[0] in bus if L else None, repr(bus.__class__))
                if meta[:5] != ((len(L),), len(L), 1, np.dtype(object), len(L)):
                    ctx.violation(f'{tag}|shape-size-ndim-dtype-len', **self.info, got=repr(meta[:5]))
                    return 'violation'
                if loaded_set(bus) != before:
                    ctx.violation(f'{tag}|status-properties-loaded-frames', **self.info, before=sorted(before), after=sorted(loaded_set(bus)))
                    return 'violation'
                shp = bus.shapes
                for lab in L:
                    s = shp[lab]
                    if lab in before and tuple(s) != self.eager[lab].shape:
                        ctx.violation(f'{tag}|shape-of-loaded-frame', **self.info, label=lab, got=s)
                        return 'violation'
                    if lab not in before and s is not None:
                        ctx.violation(f'{tag}|shape-reported-for-unloaded-frame', **self.info, label=lab, got=s)
                        return 'violation'
            elif kind in ('drop-first', 'reindex-rev', 'sort_index-desc', 'rename'):
                if not L:
                    return 'skip'
                cur_loaded = [l for l in L if l in loaded_set(bus)]
                if kind == 'drop-first':
                    if len(L) < 2:
                        return 'skip'
                    d, newL = bus.drop.iloc[0], list(L)[1:]
                elif kind == 'reindex-rev':
                    d, newL = bus.reindex(list(L)[::-1], fill_value=None), list(L)[::-1]
                elif kind == 'sort_index-desc':
                    d, newL = bus.sort_index(ascending=False), sorted(L, reverse=True)
                else:
                    d, newL = bus.rename('renamed'), list(L)
                    self.expected_name = 'renamed'
                if not isinstance(d, sf.Bus) or d.index.values.tolist() != newL:
                    ctx.violation(f'{tag}|derived-labels', **self.info, got=d.index.values.tolist() if hasattr(d, 'index') else type(d).__name__, expected=newL)
                    return 'violation'
                held = [lab for lab, fr in zip(newL, d._series.values) if fr is not FrameDeferred]
                for lab, fr in zip(newL, d._series.values):
                    if fr is not FrameDeferred and not self.frame_ok(tag + '|held-by-derived', lab, fr):
                        return 'violation'
                if self.mp is not None and len(held) > self.mp:
                    ctx.violation(f'{tag}|derived-holds-more-than-max_persist', **self.info, held=held)
                    return 'violation'
                self.bus = d
                self.model = Model(newL, self.mp, held)
                # derivations may or may not load: accept what the derived Bus reports
                return 'ok'
            else:
                raise AssertionError(kind)
        except StoreFileMutation:
            return 'mutation-error'
        except Exception as e:
            if expect_mutation_error:
                ctx.violation(f'{tag}|after-file-fault-raises-{type(e).__name__}-instead-of-StoreFileMutation', **self.info, error=repr(e))
                return 'violation'
            ctx.violation(f'{tag}|raises-{type(e).__name__}', **self.info, error=repr(e))
            return 'violation'
        return 'ok' if self.after(tag) else 'violation'

    def fault(self, name):
        w = self.work
        if name == 'touch-newer':
            os.utime(w, (1_600_000_100, 1_600_000_100))
        elif name == 'touch-older':
            os.utime(w, (1_500_000_000, 1_500_000_000))
        elif name == 'rewrite':
            shutil.copyfile(self.alt, w)
            os.utime(w, (1_600_000_200, 1_600_000_200))
        elif name == 'replace-older':
            tmp = w + '.new'
            shutil.copyfile(self.alt, tmp)
            os.utime(tmp, (1_400_000_000, 1_400_000_000))
            os.replace(tmp, w)
        elif name == 'delete':
            os.remove(w)


def run_history(case, ctx):
    _, fmt, n, mp, first, depth = case
    evs = events(n)

    def explore(hist):
        info = dict(format=fmt, max_persist=mp, history=[evs[i] for i in hist])
        run = Run(ctx, fmt, n, mp, info)
        distinct_touched = set()
        for i in hist:
            ctx.transition()
            tg = run.targets(evs[i])
            r = run.apply(evs[i])
            if r == 'violation':
                return False
            if r == 'mutation-error':
                ctx.violation(f'{fmt}|mp={mp}|{evs[i][0]}|StoreFileMutation-without-a-fault', **info)
                return False
            if r == 'skip':
                return None
            if tg:
                distinct_touched.update(tg)
        ctx.state((fmt, mp, tuple(run.model.labels), tuple(sorted(min(run.model.orders))) if run.model.orders else ()))
        if len(distinct_touched) >= 2:
            ctx.nontriv((fmt, mp, tuple(hist)))
        ctx.outcome(f'history:{fmt}')
        return True

    def rec(hist):
        r = explore(hist)
        if not r:
            return
        if len(hist) < depth:
            for j in range(len(evs)):
                rec(hist + [j])
    rec([first])
    ctx.sample({'family': 'history', 'format': fmt, 'max_persist': mp, 'first_event': repr(evs[first]), 'depth': depth}, limit=1)


def run_faults(case, ctx):
    '''for every history prefix (depth <= fault_depth) x every fault x every next event: StoreFileMutation iff the event must read.'''
    _, fmt, n, mp, first, depth = case
    evs = events(n)

    def prefixes(hist):
        yield hist
        if len(hist) < depth:
            for j in range(len(evs)):
                yield from prefixes(hist + [j])
    for hist in prefixes([first]):
        for fault in FAULTS:
            for nxt in range(len(evs)):
                info = dict(format=fmt, max_persist=mp, history=[evs[i] for i in hist], fault=fault, next_event=evs[nxt])
                run = Run(ctx, fmt, n, mp, info, tag='f')
                ok = True
                for i in hist:
                    r = run.apply(evs[i])
                    if r != 'ok':
                        ok = False
                        break
                if not ok:
                    continue
                need = run.needs_read(evs[nxt])
                if run.targets(evs[nxt]) is None:
                    continue
                run.fault(fault)
                ctx.transition()
                ctx.state((fmt, mp, 'fault', tuple(hist), fault, nxt))
                r = run.apply(evs[nxt], expect_mutation_error=bool(need))
                ctx.outcome(f'fault:{fault}:{r}')
                if need:
                    ctx.nontriv((fmt, mp, tuple(hist), fault, nxt))
                tag = f'{fmt}|fault={fault}|next={evs[nxt][0]}'
                if r == 'violation':
                    continue
                if need is True and r != 'mutation-error':
                    ctx.violation(f'{tag}|stale-store-was-read-without-StoreFileMutation', **info)
                elif need is False and r == 'mutation-error' and evs[nxt][0] not in ('reindex-rev', 'sort_index-desc', 'drop-first', 'rename', 'head2', 'iloc-slice-rev'):
                    ctx.violation(f'{tag}|StoreFileMutation-although-served-from-memory', **info)
    ctx.sample({'family': 'faults', 'format': fmt, 'max_persist': mp, 'first_event': repr(evs[first]), 'depth': depth, 'faults': FAULTS}, limit=1)


def run_roundtrip(case, ctx):
    _, fmt, n = case
    path, eager, labels, cfg, alt, fs = template(fmt, n)
    ctx.transition()
    ctx.state(('roundtrip', fmt))
    ctx.nontriv(('roundtrip', fmt))
    ctx.nontriv(('roundtrip', fmt, 'labels'))
    if list(eager) != [f.name for f in fs]:
        ctx.violation(f'{fmt}|roundtrip|labels', got=list(eager), expected=[f.name for f in fs])
        return
    for f in fs:
        g = eager[f.name]
        exact = fmt == 'zip_pickle'
        ok = g.equals(f, compare_name=True, compare_dtype=exact, compare_class=exact)
        if not ok and not exact:
            # delimited / sql: kinds of types, labels and values
            ok = (g.shape == f.shape and [tuple(x) if f.index.depth > 1 else x for x in g.index] == [tuple(x) if f.index.depth > 1 else x for x in f.index]
                  and g.columns.values.tolist() == f.columns.values.tolist()
                  and all((a == b) or (a != a and b != b) or (a is None and b != b) for ra, rb in zip(g.values.tolist(), f.values.tolist()) for a, b in zip(ra, rb)))
        if not ok:
            sig = 'float-nan-read-back-as-None' if fmt == 'sqlite' and any(v is None for row in g.values.tolist() for v in row) else 'differs'
            ctx.violation(f'{fmt}|roundtrip|{sig}', label=f.name, got=repr(g.values.tolist()), expected=repr(f.values.tolist()), got_index=repr(list(g.index)), got_dtypes=repr(g.dtypes.values.tolist()))
    ctx.sample({'family': 'roundtrip', 'format': fmt, 'frames': n}, limit=1)


def run_encoded_labels(case, ctx):
    '''labels that are not strings (ints, tuples), written through a label encoder / decoder, with PER-LABEL store configurations that differ from the default
    (one Frame without its index, one without its column labels): the round trip returns every Frame as written, under its own label'''
    _, fmt = case
    to, frm, ext, needs_cfg = FORMATS[fmt]
    f_a = sf.Frame.from_records([[1, 2], [3, 4]], index=('a', 'b'), columns=('p', 'q'), name=10)          # written WITHOUT its index
    f_b = sf.Frame.from_records([[5, 6, 7]], index=('z',), columns=('u', 'v', 'w'), name=2)                # default: with index and columns
    f_c = sf.Frame.from_records([[8, 9], [10, 11], [12, 13]], index=('k', 'l', 'm'), columns=('p', 'q'), name=7)   # written without index (and, where the format allows, without columns)
    fs = [f_a, f_b, f_c]
    enc = dict(label_encoder=str, label_decoder=int)
    no_cols = fmt in ('zip_csv', 'zip_tsv')
    cfg = sf.StoreConfigMap({
        10: sf.StoreConfig(include_index=False, index_depth=0, **enc),
        2: sf.StoreConfig(include_index=True, index_depth=1, **enc),
        7: sf.StoreConfig(include_index=False, index_depth=0, include_columns=not no_cols, columns_depth=0 if no_cols else 1, **enc),
    }, default=sf.StoreConfig(index_depth=1, **enc))
    path = os.path.join(workdir(), f'enc_{os.getpid()}{ext}')
    if os.path.exists(path):
        os.remove(path)
    ctx.transition()
    ctx.state(('encoded', fmt))
    ctx.nontriv(('encoded', fmt))
    info = dict(format=fmt)
    try:
        sf.Bus.from_frames(fs, config=cfg).__getattribute__(to)(path, config=cfg)
        for mp in (None, 1):
            bus = getattr(sf.Bus, frm)(path, config=cfg, max_persist=mp)
            if bus.index.values.tolist() != [10, 2, 7]:
                ctx.violation(f'{fmt}|encoded-labels|labels', **info, got=bus.index.values.tolist())
                continue
            for f in fs:
                g = bus[f.name]
                exp = f
                if fmt != 'zip_pickle':
                    if f.name in (10, 7):
                        exp = exp.relabel(index=sf.IndexAutoFactory)
                    if f.name == 7 and no_cols:
                        exp = exp.relabel(columns=sf.IndexAutoFactory)
                same = g.shape == exp.shape and g.index.values.tolist() == exp.index.values.tolist() and g.columns.values.tolist() == exp.columns.values.tolist() and g.values.tolist() == exp.values.tolist()
                if not same:
                    ctx.violation(f'{fmt}|encoded-labels|frame-differs', **info, label=f.name, max_persist=mp, got=repr((g.shape, g.index.values.tolist(), g.columns.values.tolist(), g.values.tolist())),
                                  expected=repr((exp.shape, exp.index.values.tolist(), exp.columns.values.tolist(), exp.values.tolist())))
    except Exception as e:
        ctx.violation(f'{fmt}|encoded-labels|raises-{type(e).__name__}', **info, error=repr(e))
    ctx.outcome('encoded-labels')
    ctx.sample({'family': 'encoded-labels', 'format': fmt}, limit=1)


TEXT_LABELS = ['2021.q1', '2021', 'v1.0.3', 'v1', 'a.b', '.lead', 'trail.', 'x y', 'p-q', 'UPPER', '1.5', 'a.pickle', 'b.txt', 'c.csv.d']


def run_text_labels(case, ctx):
    """text labels with dots (several sharing the text before the first dot), a leading / trailing dot, a space, a dash, a file-extension look-alike:
    every ordered pair and the whole list is written and read back; the labels and every Frame under its label come back as written"""
    _, fmt = case
    to, frm, ext, needs_cfg = FORMATS[fmt]
    cfg = sf.StoreConfig(index_depth=1)
    def mk(i, lab):
        return sf.Frame.from_records([[10 * i + 1, 10 * i + 2]], index=('r',), columns=('p', 'q'), name=lab)
    sets = [tuple(TEXT_LABELS), tuple(reversed(TEXT_LABELS))] + [(a, b) for a in TEXT_LABELS for b in TEXT_LABELS if a != b]
    path = os.path.join(workdir(), f'txt_{os.getpid()}{ext}')
    for labs in sets:
        ctx.transition()
        ctx.state(('text-labels', fmt, labs))
        ctx.nontriv(('text-labels', fmt, labs))
        info = dict(format=fmt, labels=labs)
        if os.path.exists(path):
            os.remove(path)
        fs = [mk(TEXT_LABELS.index(lab), lab) for lab in labs]
        try:
            getattr(sf.Bus.from_frames(fs, config=cfg), to)(path, config=cfg)
            bus = getattr(sf.Bus, frm)(path, config=cfg)
            if bus.index.values.tolist() != list(labs):
                ctx.violation(f'{fmt}|text-labels|labels', **info, got=bus.index.values.tolist())
                continue
            for f in fs:
                g = bus[f.name]
                if not (g.shape == f.shape and g.values.tolist() == f.values.tolist() and g.index.values.tolist() == ['r'] and g.columns.values.tolist() == ['p', 'q']):
                    ctx.violation(f'{fmt}|text-labels|frame-differs', **info, label=f.name, got=repr((g.index.values.tolist(), g.columns.values.tolist(), g.values.tolist())))
                    break
        except Exception as e:
            ctx.violation(f'{fmt}|text-labels|raises-{type(e).__name__}', **info, error=repr(e))
    if os.path.exists(path):
        os.remove(path)
    ctx.outcome('text-labels')
    ctx.sample({'family': 'text-labels', 'format': fmt, 'label_sets': len(sets)}, limit=1)


def run_object_columns(case, ctx):
    """object columns and an object index that hold numbers next to text and None: every cell and label comes back with its value AND its type
    (sqlite declares such a column without a type affinity; pickle keeps everything)"""
    _, fmt = case
    to, frm, ext, needs_cfg = FORMATS[fmt]
    def obj(vals):
        a = np.empty(len(vals), dtype=object)
        for i, v in enumerate(vals):
            a[i] = v
        a.flags.writeable = False
        return a
    f1 = sf.Frame.from_items((('p', obj([10, 'x', None, 40])), ('q', obj([1.5, 'y', 2, 'z'])), ('r', np.array([1, 2, 3, 4]))), index=sf.Index(obj([1, 'k', 2, 'm'])), name='o1')
    f2 = sf.Frame.from_items((('p', obj(['7', 7, 7.5])),), index=('a', 'b', 'c'), name='o2')
    fs = [f1, f2]
    cfg = sf.StoreConfig(index_depth=1)
    path = os.path.join(workdir(), f'obj_{os.getpid()}{ext}')
    if os.path.exists(path):
        os.remove(path)
    ctx.transition()
    ctx.state(('object-columns', fmt))
    ctx.nontriv(('object-columns', fmt))
    info = dict(format=fmt)
    typed = lambda seq: [(type(v).__name__ if not isinstance(v, (int, np.integer)) or isinstance(v, bool) else 'int', v) if not isinstance(v, (float, np.floating)) else ('float', float(v)) for v in seq]
    try:
        getattr(sf.Bus.from_frames(fs), to)(path, config=cfg)
        for mp in (None, 1):
            bus = getattr(sf.Bus, frm)(path, config=cfg, max_persist=mp)
            for f in fs:
                g = bus[f.name]
                for c in f.columns:
                    if typed(g[c].values.tolist()) != typed(f[c].values.tolist()):
                        ctx.violation(f'{fmt}|object-columns|cells', **info, label=f.name, column=c, got=repr(g[c].values.tolist()), expected=repr(f[c].values.tolist()))
                if typed(g.index.values.tolist()) != typed(f.index.values.tolist()):
                    ctx.violation(f'{fmt}|object-columns|index-labels', **info, label=f.name, got=repr(g.index.values.tolist()), expected=repr(f.index.values.tolist()))
    except Exception as e:
        ctx.violation(f'{fmt}|object-columns|raises-{type(e).__name__}', **info, error=repr(e))
    if os.path.exists(path):
        os.remove(path)
    ctx.outcome('object-columns')
    ctx.sample({'family': 'object-columns', 'format': fmt}, limit=1)


def run_wide_slices(case, ctx):
    '''six Frames; every set of at most two labels loaded beforehand (in either order); then a slice key that spans loaded and deferred Frames; then every
    label read back: whatever a Bus holds or returns for a label is the Frame an eager load returns for it, and never more than max_persist are held'''
    _, fmt, n, mp = case
    to, frm, ext, _ = FORMATS[fmt]
    fs = [sf.Frame.from_records([[10 * i + 1, 10 * i + 2]], index=('r',), columns=('p', 'q'), name='w%d' % i) for i in range(n)]
    labels = [f.name for f in fs]
    path = os.path.join(workdir(), f'wide_{os.getpid()}{ext}')
    if not os.path.exists(path):
        getattr(sf.Bus.from_frames(fs), to)(path)
    slices = [('iloc[:]', lambda b: b.iloc[:]), ('loc[first:last]', lambda b: b.loc[labels[0]:labels[-1]]), ('head(5)', lambda b: b.head(5)), ('tail(5)', lambda b: b.tail(5)),
              ('iloc[1:]', lambda b: b.iloc[1:]), ('iloc[::2]', lambda b: b.iloc[::2]), ('loc[list-all]', lambda b: b.loc[list(labels)]), ('mask-all', lambda b: b.loc[np.full(n, True)])]
    pre_sets = [()] + [(i,) for i in range(n)] + [(i, j) for i in range(n) for j in range(n) if i != j]
    for pre in pre_sets:
        for sname, sfn in slices:
            for readback in ('held', 'parent-reads'):
                ctx.transition()
                ctx.state(('wide', mp, pre, sname, readback))
                ctx.nontriv(('wide', mp, pre, sname, readback))
                info = dict(max_persist=mp, preloaded=[labels[i] for i in pre], key=sname, then=readback)
                try:
                    bus = getattr(sf.Bus, frm)(path, max_persist=mp)
                    for i in pre:
                        bus[labels[i]]
                    sel = sfn(bus)
                    for b_, what in ((sel, 'selection'), (bus, 'parent')):
                        heldn = 0
                        for lab, fr in zip(b_.index.values.tolist(), b_._series.values):
                            if fr is FrameDeferred:
                                continue
                            heldn += 1
                            if not fr.equals(fs[labels.index(lab)], compare_name=True, compare_dtype=True):
                                ctx.violation(f'wide-slices|{what}-holds-another-labels-frame', **info, label=lab, holds=repr(fr.name))
                                raise StopIteration
                        if mp is not None and heldn > mp:
                            ctx.violation(f'wide-slices|{what}-holds-more-than-max_persist', **info, held=heldn)
                            raise StopIteration
                    if readback == 'parent-reads':
                        for lab in list(labels) + list(labels)[::-1]:
                            fr = bus[lab]
                            if not fr.equals(fs[labels.index(lab)], compare_name=True, compare_dtype=True):
                                ctx.violation('wide-slices|read-returns-another-labels-frame', **info, label=lab, got=repr(fr.name))
                                raise StopIteration
                except StopIteration:
                    pass
                except Exception as e:
                    ctx.violation(f'wide-slices|raises-{type(e).__name__}', **info, error=repr(e))
    ctx.outcome('wide-slices')
    ctx.sample({'family': 'wide-slices', 'frames': n, 'max_persist': mp}, limit=1)


def run_case(case, ctx):
    if case[0] == 'wide-slices':
        return run_wide_slices(case, ctx)
    if case[0] == 'encoded-labels':
        return run_encoded_labels(case, ctx)
    if case[0] == 'text-labels':
        return run_text_labels(case, ctx)
    if case[0] == 'object-columns':
        return run_object_columns(case, ctx)
    {'history': run_history, 'faults': run_faults, 'roundtrip': run_roundtrip}[case[0]](case, ctx)
