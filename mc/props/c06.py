"""C06 Index set algebra and label alignment of binary operators.

Mode P.  (A) union / intersection / difference for every ordered pair of label
sub-permutations over several label pools (ints, strs, mixed objects, tuples,
dates, hierarchical): set algebra, each label once, identical operands keep order.
(B) every operator between two Series over every ordered pair of label
sub-permutations; Frames over row x column sub-permutations and two layouts;
Frame with Series on either axis; scalars / unlabelled arrays / reflected forms.
Oracle: label -> op(a[l], b[l]) on NumPy scalars where both have the label,
missing elsewhere (arithmetic); permuting either operand is covered because every
permutation is enumerated against the same label-keyed dictionary.
"""
import itertools
import operator as op

import numpy as np

import static_frame as sf
from mc import universe as U
from mc.observe import columns_of, is_missing, norm

PROPERTY_ID = 'C06'
MODE = 'P (product enumeration of operand label sub-permutations x operators x dtype pairings x layouts; label-keyed reference)'
RULE = ('case = (family, pool / dtype pairing / operator group, shard); every ordered pair of ordered label sub-sequences is combined by the real code and '
        'compared with the label-keyed reference; non-trivial = pair whose label sequences differ (overlap partial, permuted or disjoint); '
        'states = distinct operand pairs; transitions = operator / set-operation applications compared')
ASSUMPTIONS = [
    'NumPy scalar arithmetic / comparison on the two elements is the specification of op(a, b)',
    'order of a union / intersection / aligned result axis is compared only for operands with identical indices (the statement fixes no other order)',
    'comparison and logical operators cannot hold a missing marker (Boolean result): only labels present in both operands are compared for them; logical operators are driven on equal label sets only',
    'right operands avoid zero for division and negative exponents (NumPy itself raises / warns there)',
]


def subperms(pool, maxlen):
    out = []
    for k in range(0, maxlen + 1):
        out.extend(itertools.permutations(pool, k))
    return out


POOLS = {
    'int': (3, 1, 2, 7),
    'str': ('b', 'a', 'ab', 'c'),
    'mixed': ('a', 1, 2.5, None),
    'tuple': ((1, 2), (1, 3), 'x', 4),
    'date': tuple(np.datetime64(d) for d in ('2020-01-02', '2020-01-01', '2021-05-05', '2019-12-31')),
}


def mkindex(pool, labels):
    if pool == 'date':
        return sf.IndexDate(labels)
    if pool in ('mixed', 'tuple'):
        a = np.empty(len(labels), dtype=object)
        for i, x in enumerate(labels):
            a[i] = x
        return sf.Index(a)
    if not labels:
        return sf.Index((), dtype=np.array(POOLS[pool]).dtype)
    return sf.Index(labels)


def lkey(x):
    if isinstance(x, np.ndarray):
        return tuple(lkey(v) for v in x.tolist())
    if isinstance(x, tuple):
        return tuple(lkey(v) for v in x)
    n = norm(x)
    if n[0] in ('i', 'f') and n[1] != 'nan':
        return ('num', float(n[1]))
    return n


ARITH = [('add', op.add), ('sub', op.sub), ('mul', op.mul), ('truediv', op.truediv), ('floordiv', op.floordiv), ('mod', op.mod), ('pow', op.pow)]
COMP = [('eq', op.eq), ('ne', op.ne), ('lt', op.lt), ('le', op.le), ('gt', op.gt), ('ge', op.ge)]
LOGIC = [('and', op.and_), ('or', op.or_), ('xor', op.xor)]
LABS = ('a', 'b', 'c', 'd')


def scope(tier):
    return dict(set_maxlen=3, ser_maxlen=3 if tier == 'quick' else 4, frame_maxlen=2)


def cases(tier):
    sc = scope(tier)
    for pool in POOLS:
        yield ('setops', pool, sc['set_maxlen'])
    yield ('setops_ih', 0, 0)
    for pairing in ('int-int', 'int-float', 'float-floatnan', 'bool-bool', 'str-str'):
        for group in ('arith', 'comp', 'logic'):
            if pairing == 'bool-bool' and group == 'arith':
                continue
            if pairing != 'bool-bool' and group == 'logic':
                continue
            if pairing == 'str-str' and group != 'comp':
                continue
            yield ('series', pairing, group, sc['ser_maxlen'])
    for li in range(2):
        for sh in range(8):
            yield ('frames', li, sc['frame_maxlen'], (sh, 8))
    yield ('frame_series', 0, 0)
    yield ('unlabelled', 0, 0)
    yield ('hier_ops', 0, 0)
    yield ('date_units', 0, 0)
    yield ('matmul', 0, 0)
    yield ('bool_labels', 0, 0)


def universe(tier):
    return dict(scope(tier), pools={k: [repr(x) for x in v] for k, v in POOLS.items()},
                operators=[n for n, _ in ARITH + COMP + LOGIC] + ['reflected forms with scalars'])


# ------------------------------------------------------------------ (A)
def run_setops(case, ctx):
    _, pool, maxlen = case
    seqs = subperms(POOLS[pool], maxlen)
    idx = [mkindex(pool, s) for s in seqs]
    for (sa, ia), (sb, ib) in itertools.product(zip(seqs, idx), repeat=2):
        ctx.state(('set', pool, sa, sb))
        ka, kb = [lkey(x) for x in sa], [lkey(x) for x in sb]
        if ka != kb:
            ctx.nontriv(('set', pool, sa, sb))
        for name, pyop in (('union', lambda x, y: x | y), ('intersection', lambda x, y: x & y), ('difference', lambda x, y: x - y)):
            ctx.transition()
            info = dict(pool=pool, a=sa, b=sb, op=name)
            try:
                r = getattr(ia, name)(ib)
            except Exception as e:
                kinds = '+'.join(sorted({type(x).__name__ for x in sa + sb}))
                ctx.violation(f'index.{name}|raises|{type(e).__name__}|pool={pool}|label-types={kinds}', **info, error=repr(e))
                continue
            got = [lkey(x) for x in r.values] if r.depth == 1 else [lkey(tuple(x)) for x in r]
            exp = pyop(set(ka), set(kb))
            if len(got) != len(set(got)):
                ctx.violation(f'index.{name}|label-repeated|pool={pool}', **info, got=got)
            elif set(got) != exp:
                ctx.violation(f'index.{name}|wrong-label-set|pool={pool}', **info, got=got, expected=sorted(map(repr, exp)))
            elif ka == kb and name != 'difference' and got != ka:
                ctx.violation(f'index.{name}|identical-operands-reordered|pool={pool}', **info, got=got, expected=ka)
            # identical labels held in arrays of another width of the same kind (narrow op wide and wide op narrow): still identical operands
            if ka == kb and sa and pool in ('int', 'str') and name != 'difference':
                alt = sf.Index(np.array(list(sa), dtype='<U8' if pool == 'str' else np.int32))
                for form, x, y in (('same-labels-wider-right' if pool == 'str' else 'same-labels-narrower-right', ia, alt),
                                   ('same-labels-wider-left' if pool == 'str' else 'same-labels-narrower-left', alt, ib)):
                    ctx.transition()
                    try:
                        r3 = getattr(x, name)(y)
                    except Exception as e:
                        ctx.violation(f'index.{name}|{form}|raises|{type(e).__name__}|pool={pool}', **info, error=repr(e))
                        continue
                    got3 = [lkey(v) for v in r3.values]
                    if got3 != ka:
                        ctx.violation(f'index.{name}|identical-operands-reordered|dtype-width-differs|pool={pool}', **info, form=form, got=got3, expected=ka)
            # the other operand as an unlabelled array / list that repeats a label: still plain set algebra, each label once
            if sb and pool in ('int', 'str', 'date'):
                rep_b = list(sb) + [sb[0]]
                forms = [('array-with-repeat', np.array(rep_b) if pool != 'date' else np.array(rep_b, dtype='datetime64[D]')), ('list-with-repeat', rep_b),
                         # other iterables a caller may hand over: a tuple, a generator, the keys / values views of a dict (values may repeat, keys cannot), a set
                         ('tuple-with-repeat', tuple(rep_b)), ('generator-with-repeat', (x for x in rep_b)),
                         ('dict-values-with-repeat', {i_: x for i_, x in enumerate(rep_b)}.values()), ('dict-keys', {x: None for x in rep_b}.keys()), ('set', set(rep_b))]
                for form, operand in forms:
                    ctx.transition()
                    try:
                        r2 = getattr(ia, name)(operand)
                    except Exception as e:
                        ctx.violation(f'index.{name}|{form}|raises|{type(e).__name__}|pool={pool}', **info, error=repr(e))
                        continue
                    got2 = [lkey(x) for x in r2.values]
                    if len(got2) != len(set(got2)) or set(got2) != exp:
                        ctx.violation(f'index.{name}|{form}|wrong-label-set|pool={pool}', **info, got=got2, expected=sorted(map(repr, exp)))
        ctx.outcome('setops:' + pool)
    ctx.sample({'family': 'setops', 'pool': pool, 'sequences': len(seqs)}, limit=1)


HTREES = [
    (('a', 1), ('a', 2)), (('a', 2), ('a', 1)), (('a', 1), ('b', 1)), (('b', 1), ('a', 1)), (('a', 1),), (('b', 2),),
    (('a', 1), ('a', 2), ('b', 1)), (('b', 1), ('a', 2), ('a', 1)), (('a', 1), ('a', 2), ('b', 1), ('b', 2)), (('b', 2), ('b', 1), ('a', 2), ('a', 1)),
    # same shape as the full product, differing under the first / the last outer label only
    (('a', 1), ('a', 3), ('b', 1), ('b', 2)), (('a', 1), ('a', 2), ('b', 1), ('b', 3)), (('a', 1), ('a', 2), ('c', 1), ('c', 2)),
]
# levels of one kind (all int): set operations take the NumPy row path
HTREES_INT = [((1, 1), (1, 2), (2, 1)), ((2, 1), (1, 2), (1, 1)), ((1, 2), (3, 1)), ((1, 1),), ((2, 1), (2, 3))]


def hier_index(tree, route):
    '''route "product": IndexHierarchy.from_product when the tree is a full product in order (every outer label then shares ONE inner Index object)'''
    if route == 'product':
        outer = list(dict.fromkeys(t[0] for t in tree))
        inner = list(dict.fromkeys(t[1] for t in tree))
        if len(outer) > 1 and len(inner) > 1 and tuple(itertools.product(outer, inner)) == tuple(tree):
            return sf.IndexHierarchy.from_product(outer, inner)
        return None
    return sf.IndexHierarchy.from_labels(tree)


def run_setops_ih(case, ctx):
    pairs_ = [(t, r, hier_index(t, r)) for t in HTREES for r in ('labels', 'product')]
    pairs_ = [(t, r, i) for t, r, i in pairs_ if i is not None]
    pairs_int = [(t, 'labels', hier_index(t, 'labels')) for t in HTREES_INT]
    trees = HTREES + HTREES_INT
    for (ta, ra, ia), (tb, rb, ib) in itertools.chain(itertools.product(pairs_, repeat=2), itertools.product(pairs_int, repeat=2)):
        ctx.state(('setih', ta, tb, ra, rb))
        if ta != tb:
            ctx.nontriv(('setih', ta, tb))
        ka, kb = [lkey(t) for t in ta], [lkey(t) for t in tb]
        for name, pyop in (('union', lambda x, y: x | y), ('intersection', lambda x, y: x & y), ('difference', lambda x, y: x - y)):
            ctx.transition()
            info = dict(a=ta, b=tb, op=name, routes=(ra, rb))
            exp = pyop(set(ka), set(kb))
            try:
                r = getattr(ia, name)(ib)
            except Exception as e:
                cls = '|empty-result' if not exp else ''
                ctx.violation(f'ih.{name}|raises|{type(e).__name__}{cls}', **info, error=repr(e))
                continue
            got = [lkey(tuple(x)) for x in r] if len(r) else []
            if len(got) != len(set(got)) or set(got) != exp:
                ctx.violation(f'ih.{name}|wrong-label-set', **info, got=got, expected=sorted(map(repr, exp)))
            elif ka == kb and name != 'difference' and got != ka:
                ctx.violation(f'ih.{name}|identical-operands-reordered', **info, got=got, expected=ka)
            # the other operand as a plain list / generator of tuples that repeats a label: still set algebra, each label once
            if tb and ra == 'labels' and rb == 'labels':
                rep_b = list(tb) + [tb[0]]
                for form, mk in (('list-with-repeat', lambda: list(rep_b)), ('generator-with-repeat', lambda: (t for t in rep_b))):
                    ctx.transition()
                    try:
                        r2 = getattr(ia, name)(mk())
                    except Exception as e:
                        ctx.violation(f'ih.{name}|{form}|raises|{type(e).__name__}', **info, error=repr(e))
                        continue
                    got2 = [lkey(tuple(x)) for x in r2] if len(r2) else []
                    if len(got2) != len(set(got2)) or set(got2) != exp:
                        ctx.violation(f'ih.{name}|{form}|wrong-label-set', **info, got=got2, expected=sorted(map(repr, exp)))
    ctx.outcome('setops_ih')
    ctx.sample({'family': 'setops_ih', 'trees': len(trees)}, limit=1)


# ------------------------------------------------------------------ (B)
def values_for(pairing, side, labels):
    '''label-determined values so that the label -> value map is the same for every permutation'''
    lt, rt = pairing.split('-')
    t = lt if side == 0 else rt
    out = []
    for lab in labels:
        k = LABS.index(lab)
        if t == 'int':
            v = (k + 2) * (3 if side == 0 else 1) + side   # right operand never 0, small positive exponents
        elif t == 'float':
            v = (k + 1) * 1.5 + side
        elif t == 'floatnan':
            v = float('nan') if k == 1 else (k + 1) * 0.5 + 1
        elif t == 'bool':
            v = (k + side) % 2 == 0
        else:
            v = 'sx'[side] + 'abcd'[(k + side) % 3]
        out.append(v)
    dt = {'int': 'int64', 'float': 'float64', 'floatnan': 'float64', 'bool': 'bool', 'str': '<U2'}[t]
    a = np.array(out, dtype=dt) if out else np.array([], dtype=dt)
    a.flags.writeable = False
    return a


def elem_eq(g, e):
    mg, me = is_missing(g), is_missing(e)
    if mg or me:
        return mg and me
    ng, ne = norm(g), norm(e)
    if ng[0] in ('i', 'f') and ne[0] in ('i', 'f'):
        return float(g) == float(e) or abs(float(g) - float(e)) <= 1e-12 * max(abs(float(g)), abs(float(e)))
    return ng == ne


def run_series(case, ctx):
    _, pairing, group, maxlen = case
    ops = {'arith': ARITH, 'comp': COMP, 'logic': LOGIC}[group]
    seqs = subperms(LABS, maxlen)
    for la, lb in itertools.product(seqs, repeat=2):
        if group == 'logic' and set(la) != set(lb):
            continue
        a = sf.Series(values_for(pairing, 0, la), index=list(la) if la else sf.Index((), dtype='<U1'), name='x')
        b = sf.Series(values_for(pairing, 1, lb), index=list(lb) if lb else sf.Index((), dtype='<U1'), name='y')
        ctx.state(('ser', pairing, la, lb))
        if la != lb:
            ctx.nontriv(('ser', pairing, group, la, lb))
        da = dict(zip(la, a.values))
        db = dict(zip(lb, b.values))
        for name, f in ops:
            if pairing == 'str-str' and name in ('lt', 'le', 'gt', 'ge') and set(la) != set(lb):
                continue  # the missing marker cannot be ordered against a string: not a pairing NumPy can combine
            ctx.transition()
            info = dict(pairing=pairing, op=name, a=la, b=lb)
            try:
                r = f(a, b)
            except Exception as e:
                ctx.violation(f'series.{name}|raises|{type(e).__name__}|{pairing}', **info, error=repr(e))
                continue
            if not isinstance(r, sf.Series):
                ctx.violation(f'series.{name}|result-type', **info, got=type(r).__name__)
                continue
            rl = r.index.values.tolist()
            if set(rl) != set(la) | set(lb) or len(rl) != len(set(rl)):
                ctx.violation(f'series.{name}|result-labels|{pairing}', **info, got=rl, expected=sorted(set(la) | set(lb)))
                continue
            if la == lb and rl != list(la):
                ctx.violation(f'series.{name}|equal-indices-reordered', **info, got=rl)
                continue
            bad = None
            for lab, g in zip(rl, r.values):
                if lab in da and lab in db:
                    with np.errstate(all='ignore'):
                        e = f(da[lab], db[lab])
                    if not elem_eq(g, e):
                        bad = (lab, norm(g), norm(e))
                        break
                elif group == 'arith':
                    if not is_missing(g):
                        bad = (lab, norm(g), 'missing')
                        break
            if bad:
                ctx.violation(f'series.{name}|value|{pairing}', **info, label=bad[0], got=bad[1], expected=bad[2])
            elif name not in ('eq', 'ne'):
                # the hashable variant of either operand (a Series in every respect but == / !=): the same result
                for vname, x_, y_ in (('right-SeriesHE', a, sf.SeriesHE(b.values, index=b.index, name=b.name)), ('left-SeriesHE', sf.SeriesHE(a.values, index=a.index, name=a.name), b)):
                    ctx.transition()
                    try:
                        r2 = f(x_, y_)
                        if not isinstance(r2, sf.Series) or r2.index.values.tolist() != rl or not all(elem_eq(g1, g2) or (is_missing(g1) and is_missing(g2)) for g1, g2 in zip(r2.values, r.values)):
                            ctx.violation(f'series.{name}|{vname}|differs-from-plain-series|{pairing}', **info, got=repr(r2.values.tolist() if hasattr(r2, 'values') else r2)[:200], expected=repr(r.values.tolist())[:200])
                    except Exception as e:
                        ctx.violation(f'series.{name}|{vname}|raises|{type(e).__name__}|{pairing}', **info, error=repr(e))
                continue
            if la == lb and len(la):
                with np.errstate(all='ignore'):
                    ed = f(a.values, b.values).dtype
                if r.values.dtype != ed:
                    ctx.violation(f'series.{name}|equal-indices-dtype|{pairing}', **info, got=str(r.values.dtype), expected=str(ed))
        ctx.outcome(f'series:{pairing}:{group}')
    ctx.sample({'family': 'series', 'pairing': pairing, 'group': group, 'label_sequences': len(seqs)}, limit=1)


def mkframe(rows, cols, side, li):
    '''value of cell (r, c) depends only on labels and side; columns alternate int / float dtype by label'''
    arrays = []
    for c in cols:
        kc = LABS.index(c)
        vals = [(LABS.index(r) + 1) * 10 + kc + 1 + side * 100 for r in rows]
        dt = 'int64' if (kc + side) % 2 == 0 else 'float64'
        arrays.append(U.frozen(np.array(vals, dtype=dt)))
    lays = list(U.layouts(arrays))
    sig, blocks = lays[0] if li == 0 else lays[-1]
    return U.frame_from_blocks(blocks, len(rows), index=list(rows), columns=list(cols), name='f%d' % side)


def frame_cells(f):
    cols = columns_of(f)
    rl, cl = f.index.values.tolist(), f.columns.values.tolist()
    return {(r, c): cols[j][i] for j, c in enumerate(cl) for i, r in enumerate(rl)}, rl, cl


def run_frames(case, ctx):
    _, li, maxlen, (sh, nsh) = case
    seqs = [s for s in subperms(LABS[:3], maxlen) if s]
    ops = [('add', op.add), ('mul', op.mul), ('truediv', op.truediv), ('eq', op.eq), ('lt', op.lt)]
    vi = -1
    for ra, ca, rb, cb in itertools.product(seqs, repeat=4):
        vi += 1
        if vi % nsh != sh:
            continue
        a = mkframe(ra, ca, 0, li)
        b = mkframe(rb, cb, 1, 1 - li)     # the other operand uses the other layout
        ca_, _, _ = frame_cells(a)
        cb_, _, _ = frame_cells(b)
        ctx.state(('fr', ra, ca, rb, cb, li))
        if ra != rb or ca != cb:
            ctx.nontriv(('fr', ra, ca, rb, cb))
        for name, f in ops:
            ctx.transition()
            info = dict(op=name, a=(ra, ca), b=(rb, cb), layout=li)
            try:
                r = f(a, b)
            except Exception as e:
                ctx.violation(f'frame.{name}|raises|{type(e).__name__}', **info, error=repr(e))
                continue
            got, rl, cl = frame_cells(r)
            if set(rl) != set(ra) | set(rb) or set(cl) != set(ca) | set(cb) or len(rl) != len(set(rl)) or len(cl) != len(set(cl)):
                ctx.violation(f'frame.{name}|result-labels', **info, got=(rl, cl))
                continue
            if ra == rb and ca == cb and (rl != list(ra) or cl != list(ca)):
                ctx.violation(f'frame.{name}|equal-indices-reordered', **info, got=(rl, cl))
                continue
            for key, g in got.items():
                if key in ca_ and key in cb_:
                    e = f(ca_[key], cb_[key])
                    if not elem_eq(g, e):
                        ctx.violation(f'frame.{name}|value', **info, cell=key, got=norm(g), expected=norm(e))
                        break
                elif name in ('add', 'mul', 'truediv') and not is_missing(g):
                    ctx.violation(f'frame.{name}|value-where-one-operand-lacks-label', **info, cell=key, got=norm(g))
                    break
            else:
                if ra == rb and ca == cb and name in ('add', 'mul'):
                    # equal indices keep the per-column dtype NumPy gives
                    for j, c in enumerate(ca):
                        ed = f(columns_of(a)[j], columns_of(b)[j]).dtype
                        if columns_of(r)[j].dtype != ed:
                            ctx.violation(f'frame.{name}|equal-indices-dtype', **info, column=c, got=str(columns_of(r)[j].dtype), expected=str(ed))
                            break
        # class variants of the operands (hashable, grow-only): the same result as for plain Frames, for one arithmetic and one comparison operator
        for name, f in (('add', op.add), ('lt', op.lt)):
            try:
                r = f(a, b)
            except Exception:
                continue
            base_cells = frame_cells(r)
            for vname, x_, y_ in (('right-FrameHE', a, b.to_frame_he()), ('left-FrameHE', a.to_frame_he(), b), ('right-FrameGO', a, b.to_frame_go()), ('left-FrameGO', a.to_frame_go(), b)):
                ctx.transition()
                try:
                    r2 = f(x_, y_)
                    g2 = frame_cells(r2)
                    same_ = g2[1:] == base_cells[1:] and all(elem_eq(g2[0][k], v) or (is_missing(g2[0][k]) and is_missing(v)) for k, v in base_cells[0].items())
                    if not same_:
                        ctx.violation(f'frame.{name}|{vname}|differs-from-plain-frames', op=name, a=(ra, ca), b=(rb, cb), layout=li, got=repr(g2[1:])[:200], expected=repr(base_cells[1:])[:200])
                except Exception as e:
                    ctx.violation(f'frame.{name}|{vname}|raises|{type(e).__name__}', op=name, a=(ra, ca), b=(rb, cb), layout=li, error=repr(e))
        ctx.outcome('frames')
    ctx.sample({'family': 'frames', 'layout': li, 'label_sequences': len(seqs), 'shard': sh}, limit=1)


def run_frame_series(case, ctx):
    seqs = [s for s in subperms(LABS[:3], 2) if s]
    sseqs = subperms(LABS, 3)
    for rows, cols, li in itertools.product(seqs, seqs, (0, 1)):
        f = mkframe(rows, cols, 0, li)
        fc, _, _ = frame_cells(f)
        for sl in sseqs:
            s = sf.Series(values_for('int-float', 1, sl), index=list(sl) if sl else sf.Index((), dtype='<U1'))
            ds = dict(zip(sl, s.values))
            ctx.state(('fs', rows, cols, sl, li))
            ctx.nontriv(('fs', rows, cols, sl))
            for name, fn in (('add', op.add), ('mul', op.mul), ('sub', op.sub)):
                for axis in (1, 0):
                    ctx.transition()
                    info = dict(op=name, rows=rows, cols=cols, series=sl, axis=axis, layout=li)
                    try:
                        r = fn(f, s) if axis == 1 else fn(f.via_T, s)
                    except Exception as e:
                        ctx.violation(f'frame-series.{name}|raises|{type(e).__name__}|axis={axis}', **info, error=repr(e))
                        continue
                    got, rl, cl = frame_cells(r)
                    er = set(rows) if axis == 1 else set(rows) | set(sl)
                    ec = set(cols) | set(sl) if axis == 1 else set(cols)
                    if set(rl) != er or set(cl) != ec:
                        ctx.violation(f'frame-series.{name}|labels|axis={axis}', **info, got=(rl, cl), expected=(sorted(er), sorted(ec)))
                        continue
                    for (rr, cc), g in got.items():
                        sk = cc if axis == 1 else rr
                        if (rr, cc) in fc and sk in ds:
                            e = fn(fc[(rr, cc)], ds[sk])
                            if not elem_eq(g, e):
                                ctx.violation(f'frame-series.{name}|value|axis={axis}', **info, cell=(rr, cc), got=norm(g), expected=norm(e))
                                break
                        elif not is_missing(g):
                            ctx.violation(f'frame-series.{name}|value-where-label-missing|axis={axis}', **info, cell=(rr, cc), got=norm(g))
                            break
    ctx.outcome('frame_series')
    ctx.sample({'family': 'frame_series'}, limit=1)


def run_unlabelled(case, ctx):
    '''scalars (both sides), 1-D / 2-D unlabelled arrays: position-wise broadcast, labels kept.'''
    seqs = [s for s in subperms(LABS[:3], 3) if s]
    allops = ARITH + COMP
    for labels in seqs:
        for pairing in ('int-int', 'float-floatnan'):
            a = sf.Series(values_for(pairing, 0, labels), index=list(labels), name='x')
            arr = values_for('int-float', 1, labels)
            ctx.state(('un', labels, pairing))
            for name, fn in allops:
                for form, call, ref in (
                        ('scalar', lambda: fn(a, 2), lambda v, i: fn(v, 2)),
                        ('reflected-scalar', lambda: fn(2, a), lambda v, i: fn(2, v)),
                        ('array', lambda: fn(a, arr), lambda v, i: fn(v, arr[i]))):
                    if form == 'reflected-scalar' and name in ('mod', 'pow'):
                        continue  # the library defines no __rmod__ / __rpow__: Python itself raises TypeError, no result to check
                    ctx.transition()
                    ctx.nontriv(('un', labels, pairing, name, form))
                    info = dict(op=name, form=form, labels=labels, pairing=pairing)
                    try:
                        with np.errstate(all='ignore'):
                            r = call()
                    except Exception as e:
                        ctx.violation(f'series-{form}.{name}|raises|{type(e).__name__}', **info, error=repr(e))
                        continue
                    if not isinstance(r, sf.Series) or r.index.values.tolist() != list(labels):
                        ctx.violation(f'series-{form}.{name}|labels', **info, got=repr(r))
                        continue
                    with np.errstate(all='ignore'):
                        exp = [ref(v, i) for i, v in enumerate(a.values)]
                    if not all(elem_eq(g, e) for g, e in zip(r.values, exp)):
                        ctx.violation(f'series-{form}.{name}|value', **info, got=[norm(x) for x in r.values], expected=[norm(x) for x in exp])
    for rows, cols, li in itertools.product([s for s in subperms(LABS[:3], 2) if s], [s for s in subperms(LABS[:3], 3) if s], (0, 1)):
        f = mkframe(rows, cols, 0, li)
        fc, _, _ = frame_cells(f)
        row = np.arange(1, len(cols) + 1) * 2
        full = np.arange(1, len(rows) * len(cols) + 1).reshape(len(rows), len(cols))
        ctx.state(('unf', rows, cols, li))
        for name, fn in (('add', op.add), ('sub', op.sub), ('mul', op.mul), ('lt', op.lt), ('eq', op.eq)):
            for form, call, ref in (
                    ('scalar', lambda: fn(f, 3), lambda v, i, j: fn(v, 3)),
                    ('reflected-scalar', lambda: fn(3, f), lambda v, i, j: fn(3, v)),
                    ('row-array', lambda: fn(f, row), lambda v, i, j: fn(v, row[j])),
                    ('2d-array', lambda: fn(f, full), lambda v, i, j: fn(v, full[i, j]))):
                ctx.transition()
                ctx.nontriv(('unf', rows, cols, name, form))
                info = dict(op=name, form=form, rows=rows, cols=cols, layout=li)
                try:
                    r = call()
                except Exception as e:
                    ctx.violation(f'frame-{form}.{name}|raises|{type(e).__name__}', **info, error=repr(e))
                    continue
                got, rl, cl = frame_cells(r)
                if rl != list(rows) or cl != list(cols):
                    ctx.violation(f'frame-{form}.{name}|labels', **info, got=(rl, cl))
                    continue
                bad = [(rr, cc) for i, rr in enumerate(rows) for j, cc in enumerate(cols) if not elem_eq(got[(rr, cc)], ref(fc[(rr, cc)], i, j))]
                if bad:
                    ctx.violation(f'frame-{form}.{name}|value', **info, cell=bad[0])
    ctx.outcome('unlabelled')
    ctx.sample({'family': 'unlabelled'}, limit=1)


def run_hier_ops(case, ctx):
    '''operators between containers labelled hierarchically (Series index, Frame columns): pairing by full tuple'''
    def val(t, side):
        return (ord(t[0]) - 96) * 10 + t[1] + 100 * side
    for ta, tb, ra, rb in itertools.product(HTREES, HTREES, ('labels', 'product'), ('labels', 'product')):
        if hier_index(ta, ra) is None or hier_index(tb, rb) is None:
            continue
        sa = sf.Series([val(t, 0) for t in ta], index=hier_index(ta, ra))
        sb = sf.Series([val(t, 1) * 1.5 for t in tb], index=hier_index(tb, rb))
        fa = sf.Frame.from_records([[val(t, 0) for t in ta]], columns=hier_index(ta, ra), index=('x',))
        fb = sf.Frame.from_records([[val(t, 1) * 1.5 for t in tb]], columns=hier_index(tb, rb), index=('x',))
        da, db = {t: val(t, 0) for t in ta}, {t: val(t, 1) * 1.5 for t in tb}
        ctx.state(('hier', ta, tb, ra, rb))
        if ta != tb:
            ctx.nontriv(('hier', ta, tb))
        for name, f in (('add', op.add), ('mul', op.mul), ('sub', op.sub), ('lt', op.lt)):
            for kind, x, y in (('series', sa, sb), ('frame-columns', fa, fb)):
                ctx.transition()
                info = dict(op=name, a=ta, b=tb, kind=kind, routes=(ra, rb))
                try:
                    r = f(x, y)
                except Exception as e:
                    ctx.violation(f'hier-{kind}.{name}|raises|{type(e).__name__}', **info, error=repr(e))
                    continue
                labs = [tuple(t) for t in (r.index if kind == 'series' else r.columns)]
                vals = list(r.values) if kind == 'series' else list(r.values[0])
                if set(labs) != set(ta) | set(tb) or len(labs) != len(set(labs)):
                    ctx.violation(f'hier-{kind}.{name}|result-labels', **info, got=labs)
                    continue
                if ta == tb and labs != list(ta):
                    ctx.violation(f'hier-{kind}.{name}|equal-indices-reordered', **info, got=labs)
                    continue
                for t, g in zip(labs, vals):
                    if t in da and t in db:
                        if not elem_eq(g, f(da[t], db[t])):
                            ctx.violation(f'hier-{kind}.{name}|value', **info, label=t, got=norm(g), expected=norm(f(da[t], db[t])))
                            break
                    elif name != 'lt' and not is_missing(g):
                        ctx.violation(f'hier-{kind}.{name}|value-where-one-operand-lacks-label', **info, label=t, got=norm(g))
                        break
    ctx.outcome('hier_ops')
    ctx.sample({'family': 'hier_ops', 'trees': len(HTREES)}, limit=1)


def run_bool_labels(case, ctx):
    '''Series labelled by Booleans (every ordered non-empty subset of {True, False} on both sides): operators and reindex pair by label, a Boolean label is never read as a mask'''
    subsets = [(True,), (False,), (True, False), (False, True)]
    for la, lb in itertools.product(subsets, repeat=2):
        a = sf.Series([1 if l else 2 for l in la], index=list(la))
        b = sf.Series([10 if l else 20 for l in lb], index=list(lb))
        ctx.state(('bool-labels', la, lb))
        ctx.transition(2)
        if la != lb:
            ctx.nontriv(('bool-labels', la, lb))
        info = dict(a=la, b=lb)
        try:
            r = a + b
            got = {bool(k): v for k, v in zip(r.index.values.tolist(), r.values.tolist())}
            exp = {l: ((1 if l else 2) + (10 if l else 20)) if l in la and l in lb else float('nan') for l in set(la) | set(lb)}
            if set(got) != set(exp) or any(not (got[k] == exp[k] or (got[k] != got[k] and exp[k] != exp[k])) for k in exp):
                ctx.violation('bool-labels|series.add|values-not-paired-by-label', **info, got=got, expected=exp)
            r2 = a.reindex(list(lb), fill_value=-1)
            if r2.values.tolist() != [(1 if l else 2) if l in la else -1 for l in lb]:
                ctx.violation('bool-labels|series.reindex|values-not-paired-by-label', **info, got=r2.values.tolist())
        except Exception as e:
            ctx.violation(f'bool-labels|raises|{type(e).__name__}', **info, error=repr(e))
    ctx.outcome('bool_labels')
    ctx.sample({'family': 'bool_labels'}, limit=1)


def run_matmul(case, ctx):
    '''the @ operator pairs the inner axis by label: every permutation of the inner labels on both operands, Series and Frame on either side'''
    inner = ('a', 'b', 'c')
    val = {l: i + 2 for i, l in enumerate(inner)}
    for pa, pb in itertools.product(itertools.permutations(inner), repeat=2):
        ctx.state(('matmul', pa, pb))
        if pa != pb:
            ctx.nontriv(('matmul', pa, pb))
        info = dict(left_inner=pa, right_inner=pb)
        sa = sf.Series([val[l] for l in pa], index=list(pa))
        sb = sf.Series([val[l] * 10 for l in pb], index=list(pb))
        fa = sf.Frame.from_records([[val[l], val[l] * 3] for l in pa], index=list(pa), columns=('p', 'q')).transpose()          # rows p, q; columns = inner labels in order pa
        fb = sf.Frame.from_records([[val[l] * 10, val[l] * 7] for l in pb], index=list(pb), columns=('u', 'v'))                   # rows = inner labels in order pb
        A = {('p', l): val[l] for l in inner} | {('q', l): val[l] * 3 for l in inner}
        B = {(l, 'u'): val[l] * 10 for l in inner} | {(l, 'v'): val[l] * 7 for l in inner}
        exp_ss = sum(val[l] * val[l] * 10 for l in inner)
        checks = [
            ('series@series', lambda: sa @ sb, lambda r: float(r) == exp_ss),
            ('series@frame', lambda: sa @ fb, lambda r: {k: float(v) for k, v in r.items()} == {c: float(sum(val[l] * B[(l, c)] for l in inner)) for c in ('u', 'v')}),
            ('frame@series', lambda: fa @ sb, lambda r: {k: float(v) for k, v in r.items()} == {rr: float(sum(A[(rr, l)] * val[l] * 10 for l in inner)) for rr in ('p', 'q')}),
            ('frame@frame', lambda: fa @ fb, lambda r: {(i, c): float(r.loc[i, c]) for i in ('p', 'q') for c in ('u', 'v')} ==
             {(i, c): float(sum(A[(i, l)] * B[(l, c)] for l in inner)) for i in ('p', 'q') for c in ('u', 'v')}),
        ]
        for name, fn, ok in checks:
            ctx.transition()
            try:
                r = fn()
                if not ok(r):
                    ctx.violation(f'matmul|{name}|not-paired-by-label', **info, got=repr(r.values.tolist() if hasattr(r, 'values') else r))
            except Exception as e:
                ctx.violation(f'matmul|{name}|raises|{type(e).__name__}', **info, error=repr(e))
    ctx.outcome('matmul')
    ctx.sample({'family': 'matmul'}, limit=1)


def run_date_units(case, ctx):
    '''Series / Frames labelled by the same instants held in datetime indices of different units (day, hour, second), every order on both sides:
    operators, reindex and set operations pair by instant.'''
    days = ('2020-01-01', '2020-01-02', '2020-01-03', '2020-02-01')
    val = {d: i + 1 for i, d in enumerate(days)}
    ctors = {'D': sf.IndexDate, 'h': sf.IndexHour, 's': sf.IndexSecond, 'ns': sf.IndexNanosecond}
    seqs = [p for n in (1, 2, 3) for p in itertools.permutations(days[:4], n) if n < 3 or '2020-02-01' not in p or True][:]
    seqs = [p for p in seqs if len(p) <= 3]
    for ua, ub in (('D', 's'), ('s', 'D'), ('D', 'h'), ('h', 's'), ('D', 'ns'), ('ns', 's'), ('ns', 'ns')):
        for sa, sb in itertools.product(seqs, repeat=2):
            if len(sa) + len(sb) > 5:
                continue
            a = sf.Series([val[d] for d in sa], index=ctors[ua](sa))
            b = sf.Series([val[d] * 10 for d in sb], index=ctors[ub](sb))
            ctx.state(('date-units', ua, ub, sa, sb))
            ctx.transition(3)
            if sa != sb:
                ctx.nontriv(('date-units', ua, ub, sa, sb))
            info = dict(units=(ua, ub), a=sa, b=sb)
            key = lambda x: str(np.datetime64(x, 's'))
            try:
                r = a + b
                got = {key(k): v for k, v in zip(r.index.values, r.values.tolist())}
                exp = {key(d): (val[d] + val[d] * 10 if d in sa and d in sb else float('nan')) for d in set(sa) | set(sb)}
                if set(got) != set(exp) or len(r) != len(exp) or any(not (got[k] == exp[k] or (got[k] != got[k] and exp[k] != exp[k])) for k in exp):
                    ctx.violation('date-units|series.add|values-not-paired-by-instant', **info, got=got, expected=exp)
                    continue
                r2 = a.reindex(b.index, fill_value=-1)
                got2 = [int(v) for v in r2.values.tolist()]
                exp2 = [val[d] if d in sa else -1 for d in sb]
                if got2 != exp2:
                    ctx.violation('date-units|series.reindex|values-not-paired-by-instant', **info, got=got2, expected=exp2)
                    continue
                u = a.index.union(b.index)
                if sorted(key(x) for x in u.values) != sorted(key(d) for d in set(sa) | set(sb)):
                    ctx.violation('date-units|index.union|label-set', **info, got=[key(x) for x in u.values])
            except Exception as e:
                ctx.violation(f'date-units|raises|{type(e).__name__}', **info, error=repr(e))
    ctx.outcome('date_units')
    ctx.sample({'family': 'date_units', 'sequences': len(seqs)}, limit=1)


def run_case(case, ctx):
    if case[0] == 'date_units':
        return run_date_units(case, ctx)
    if case[0] == 'matmul':
        return run_matmul(case, ctx)
    if case[0] == 'bool_labels':
        return run_bool_labels(case, ctx)
    {'hier_ops': run_hier_ops, 'setops': run_setops, 'setops_ih': run_setops_ih, 'series': run_series, 'frames': run_frames,
     'frame_series': run_frame_series, 'unlabelled': run_unlabelled}[case[0]](case, ctx)
