"""C05 Hierarchical index: tree and table views agree; per-level selection is exact.

Modes P + H.  (P) every small tree (depth 2-3, ragged fan-out, inner labels that
repeat under different parents, a datetime level) built through several routes:
all views must describe the same tuple list, and every combination of per-level
selectors (label, list, closed / half-open slice, all, innermost or whole-key
Boolean mask, full tuples, tuple lists) must select exactly the positions the
reference descent selects, through loc_to_iloc, Series and Frame (both axes).
(H) every history of appends / extends / cache-materialising reads on an
IndexHierarchyGO, followed by the same view and selection checks.
"""
import itertools

import numpy as np

import static_frame as sf
from mc.props.c02 import check_index, pyset_key, same_seq, tree_ordered

PROPERTY_ID = 'C05'
MODE = 'P + H (product enumeration of trees x construction routes x per-level selector combinations; exhaustive grow-only histories replayed on fresh objects)'
RULE = ('P case = (tree family shard): for every tree every selector combination is resolved by the real index and by the reference descent over the list of tuples; '
        'H case = (GO seed, first event): every history of depth <= D; after each history all views and a selector battery are compared with the list model; '
        'non-trivial = selector combination that selects a proper non-empty subset or re-orders; states = distinct (tuple list, selector) pairs / (model, cache flag); '
        'transitions = selections / events executed')
ASSUMPTIONS = [
    'a list selector keeps only the labels present under the parent being visited and orders that parent\'s matches by the list; index order otherwise',
    'a slice endpoint absent from a visited subtree makes the whole selection a lookup error; selections matching nothing and Boolean masks at outer depths are outside the claim',
    'any exception is accepted where the reference expects a lookup error',
]

ALL = slice(None)
D = lambda s: np.datetime64(s)


class RefErr(Exception):
    pass


def ref_select(tuples, selectors):
    '''positions selected, in result order; raises RefErr where the statement demands a lookup error'''
    depth = len(selectors)

    def rec(pos, d):
        groups = {}
        for p in pos:
            groups.setdefault(pyset_key(tuples[p][d]), []).append(p)
        labels = list(groups)          # first-appearance order == tree order
        sel = selectors[d]
        if isinstance(sel, slice):
            if sel == ALL:
                chosen = labels
            else:
                lo = 0 if sel.start is None else (labels.index(pyset_key(sel.start)) if pyset_key(sel.start) in groups else None)
                hi = len(labels) - 1 if sel.stop is None else (labels.index(pyset_key(sel.stop)) if pyset_key(sel.stop) in groups else None)
                if lo is None or hi is None:
                    raise RefErr('slice endpoint absent from a visited subtree')
                chosen = labels[lo:hi + 1]
        elif isinstance(sel, np.ndarray) and sel.dtype == bool:
            return [p for p in pos if sel[p]]
        elif isinstance(sel, list):
            chosen = [pyset_key(x) for x in sel if pyset_key(x) in groups]
        else:
            chosen = [pyset_key(sel)] if pyset_key(sel) in groups else []
        out = []
        for lab in chosen:
            if d == depth - 1:
                out.extend(groups[lab])
            else:
                out.extend(rec(groups[lab], d + 1))
        return out
    return rec(list(range(len(tuples))), 0)


# ------------------------------------------------------------------ trees
def trees(tier):
    inner_opts = [(1,), (1, 2), (2, 1), (1, 2, 3), (3, 1)]
    out = []
    for k in (1, 2, 3):
        for combo in itertools.product(inner_opts, repeat=k):
            if sum(map(len, combo)) > (6 if tier == 'quick' else 7):
                continue
            outs = ('b', 'a', 'c')[:k]
            out.append([(o, i) for o, inn in zip(outs, combo) for i in inn])
    # inner labels 0..k-1 under every parent: the shape produced by concatenating auto-indexed containers (leaves are then auto-integer indices)
    out += [[('b', 0), ('b', 1), ('a', 0), ('a', 1), ('a', 2)], [('b', 0), ('a', 0), ('a', 1)], [('a', 0), ('a', 1), ('b', 0), ('c', 0), ('c', 1)]]
    # text inner labels whose width differs from parent to parent (each parent's leaf index has its own dtype width), widest first / last / in the middle
    out += [[('b', 'x'), ('b', 'yy'), ('a', 'zzz')], [('b', 'zzz'), ('a', 'x'), ('a', 'yy')], [('b', 'x'), ('a', 'zzz'), ('a', 'x'), ('c', 'yy')],
            [('bbb', 'zzz'), ('a', 'x')], [('b', 'xx', 'p'), ('b', 'y', 'qqq'), ('a', 'zzz', 'q')]]
    # depth 3 with a datetime middle level and repeated innermost labels
    mids = [(D('2020-01-01'),), (D('2020-01-01'), D('2020-01-02')), (D('2020-01-02'), D('2020-01-01'))]
    leafs = [('x',), ('x', 'y'), ('y', 'x')]
    for k in (1, 2):
        for mcombo in itertools.product(mids, repeat=k):
            for lf in leafs:
                t = [(o, m, l) for o, mm in zip(('b', 'a')[:k], mcombo) for m in mm for l in lf]
                if len(t) <= (6 if tier == 'quick' else 8):
                    out.append(t)
    return out


def level_selectors(tuples, d, innermost):
    labels = []
    for t in tuples:
        if not any(pyset_key(t[d]) == pyset_key(x) for x in labels):
            labels.append(t[d])
    absent = 'zz' if isinstance(labels[0], str) else (99 if not isinstance(labels[0], np.datetime64) else D('1999-01-01'))
    sels = [('all', ALL)] + [('label', l) for l in labels] + [('absent-label', absent)]
    for L in (1, 2):
        for t in itertools.permutations(labels + [absent], L):
            if L == 1 and t[0] is absent:
                continue
            sels.append(('list', list(t)))
    ends = [None] + labels
    for a in ends:
        for b in ends:
            if a is None and b is None:
                continue
            sels.append(('slice' if (a is not None and b is not None) else 'half-open-slice', slice(a, b)))
    sels.append(('slice-absent-end', slice(labels[0], absent)))
    if innermost:
        n = len(tuples)
        for bits in ([i % 2 == 0 for i in range(n)], [i == n - 1 for i in range(n)], [True] * n, [i != 0 for i in range(n)]):
            sels.append(('mask', np.array(bits, dtype=bool)))
    return sels


def scope(tier):
    return dict(depth=3 if tier == 'quick' else 4)


def cases(tier):
    ts = trees(tier)
    for i in range(len(ts)):
        yield ('tree', tier, i)
    for seed in GO_SEEDS:
        for first in range(len(go_events(seed))):
            yield ('history', seed, first, scope(tier)['depth'])


def universe(tier):
    return dict(scope(tier), trees=len(trees(tier)), go_seeds=list(GO_SEEDS), example_tree=repr(trees(tier)[7]))


def build_routes(tuples):
    depth = len(tuples[0])
    routes = [('from_labels', lambda: sf.IndexHierarchy.from_labels(tuples)),
              ('from_labels(GO)+appends', lambda: _go_by_append(tuples)),
              ('selection-of-larger', lambda: sf.IndexHierarchy.from_labels(tuples + [(('zz',) + tuples[-1][1:])]).iloc[:len(tuples)]),
              ('from_type_blocks(values)', lambda: sf.IndexHierarchy.from_labels(tuples).iloc[list(range(len(tuples)))])]
    if depth == 3 and isinstance(tuples[0][1], np.datetime64):
        # labels delivered as columns of a Frame, the dates as TEXT in an object column, converted by a per-depth index constructor
        def from_frame_columns(obj_dtype):
            k1 = np.array([str(t[1]) for t in tuples], dtype=object if obj_dtype else None)
            f = sf.Frame.from_fields((np.array([t[0] for t in tuples]), k1, np.array([t[2] for t in tuples]), np.arange(len(tuples))), columns=('k0', 'k1', 'k2', 'v'))
            return f.set_index_hierarchy(['k0', 'k1', 'k2'], index_constructors=(sf.Index, sf.IndexDate, sf.Index), drop=True).index
        routes.append(('set_index_hierarchy(index_constructors, text dates)', lambda: from_frame_columns(False)))
        routes.append(('set_index_hierarchy(index_constructors, object dates)', lambda: from_frame_columns(True)))
        routes.append(('from_labels(index_constructors, text dates)', lambda: sf.IndexHierarchy.from_labels([(t[0], str(t[1]), t[2]) for t in tuples],
                                                                                                             index_constructors=(sf.Index, sf.IndexDate, sf.Index))))
    if depth == 2:
        tree = {}
        for o, i in tuples:
            tree.setdefault(o, []).append(i)
        routes.append(('from_tree', lambda: sf.IndexHierarchy.from_tree(tree)))
        routes.append(('from_index_items', lambda: sf.IndexHierarchy.from_index_items((o, sf.Index(v)) for o, v in tree.items())))
        if all(list(v) == list(range(len(v))) for v in tree.values()):
            routes.append(('concat_items(auto-indexed Series)', lambda: sf.Series.from_concat_items((o, sf.Series(np.zeros(len(v)))) for o, v in tree.items()).index))
            routes.append(('from_index_items(auto leaves)', lambda: sf.IndexHierarchy.from_index_items(
                (o, sf.IndexAutoFactory.from_optional_constructor(len(v), default_constructor=sf.Index)) for o, v in tree.items())))
    return routes


def _go_by_append(tuples):
    go = sf.IndexHierarchyGO.from_labels(tuples[:1])
    for t in tuples[1:]:
        go.append(t)
    return go


def positions_of(result, n):
    if isinstance(result, (int, np.integer)):
        return [int(result)]
    if isinstance(result, slice):
        return list(range(n))[result]
    if isinstance(result, np.ndarray) and result.dtype == bool:
        return [i for i, b in enumerate(result.tolist()) if b]
    return [int(x) for x in result]


def check_views(ctx, tag, ih, tuples, info):
    check_index(ctx, tag, ih, tuples, [('zz',) + tuple(tuples[0][1:])] if tuples else [], info)
    try:
        depth = len(tuples[0])
        if ih.depth != depth or ih.shape != (len(tuples), depth):
            return ctx.violation(f'{tag}|depth-or-shape', **info, got=(ih.depth, ih.shape))
        for d in range(depth):
            col = list(ih.values_at_depth(d))
            if not same_seq(col, [t[d] for t in tuples]):
                return ctx.violation(f'{tag}|values_at_depth', **info, depth=d, got=col, expected=[t[d] for t in tuples])
            # label widths: (label, run length) in order
            widths = [(pyset_key(l), w) for l, w in ih.label_widths_at_depth(d)]
            exp = []
            prev_prefix = None
            for t in tuples:
                pre = tuple(pyset_key(x) for x in t[:d + 1])
                if pre == prev_prefix:
                    exp[-1] = (exp[-1][0], exp[-1][1] + 1)
                else:
                    exp.append((pyset_key(t[d]), 1))
                prev_prefix = pre
            if widths != exp:
                return ctx.violation(f'{tag}|label_widths_at_depth', **info, depth=d, got=widths, expected=exp)
    except Exception as e:
        ctx.violation(f'{tag}|views-raise-{type(e).__name__}', **info, error=repr(e))


def selector_battery(ctx, tag, ih, tuples, info, full=True, containers=True):
    n = len(tuples)
    depth = len(tuples[0])
    per_level = [level_selectors(tuples, d, d == depth - 1) for d in range(depth)]
    if not full:
        per_level = [[s for s in sels if s[0] in ('all', 'label', 'list', 'half-open-slice', 'mask')][:9] for sels in per_level]
    ser = sf.Series(np.arange(n), index=ih) if containers else None
    frc = sf.Frame(np.arange(2 * n).reshape(2, n), columns=ih) if containers else None
    for combo in itertools.product(*per_level):
        kinds = 'x'.join(k for k, _ in combo)
        sels = [s for _, s in combo]
        if sum(1 for k, _ in combo if k == 'mask') > 0 and any(k == 'mask' for k, _ in combo[:-1]):
            continue
        ctx.transition()
        try:
            exp = ref_select(tuples, sels)
            err = None
        except RefErr as e:
            exp, err = None, str(e)
        if exp is not None and not exp:
            continue  # matches nothing: outside the claim
        ctx.state((tuple(tuples), kinds, repr(sels)))
        if exp is not None and (len(exp) < n or exp != list(range(n))):
            ctx.nontriv((tuple(tuples), repr(sels)))
        key = sf.HLoc[tuple(sels)]
        sinfo = dict(info, selectors=[repr(s) if not isinstance(s, np.ndarray) else s.tolist() for s in sels])
        try:
            got = positions_of(ih.loc_to_iloc(key), n)
            gerr = None
        except Exception as e:
            got, gerr = None, type(e).__name__
        ctx.outcome('err' if gerr else 'ok')
        if err:
            if gerr is None:
                ctx.violation(f'{tag}|HLoc|{kinds}|returns-data-for-absent-slice-endpoint', **sinfo, got=got)
            continue
        if gerr:
            ctx.violation(f'{tag}|HLoc|{kinds}|raises-{gerr}', **sinfo, expected=exp)
            continue
        if got != exp:
            sig = 'same-set-different-order' if sorted(got) == sorted(exp) else ('superset' if set(exp) < set(got) else ('subset' if set(got) < set(exp) else 'other-rows'))
            ctx.violation(f'{tag}|HLoc|{kinds}|positions:{sig}', **sinfo, got=got, expected=exp)
            continue
        if containers and len(set(exp)) == len(exp) and tree_ordered([tuples[p] for p in exp]):
            try:
                # a selector that is a list, slice or mask at any level asks for a set of rows: the result keeps its dimension even when one row matches
                multi = any(k != 'label' for k, _ in combo)
                r = ser.loc[key]
                gv = [int(r)] if not isinstance(r, sf.Series) else r.values.tolist()
                if gv != exp:
                    ctx.violation(f'{tag}|Series.loc[HLoc]|{kinds}', **sinfo, got=gv, expected=exp)
                elif multi != isinstance(r, sf.Series):
                    ctx.violation(f'{tag}|Series.loc[HLoc]|{kinds}|dimension', **sinfo, got=type(r).__name__, non_scalar_selector=multi)
                r = frc.loc[:, key]
                gv = r.values[0].tolist() if isinstance(r, sf.Frame) else ([int(r.values[0])] if isinstance(r, sf.Series) else None)
                if gv != exp:
                    ctx.violation(f'{tag}|Frame.loc[:,HLoc]|{kinds}', **sinfo, got=gv, expected=exp)
                elif multi != isinstance(r, sf.Frame):
                    ctx.violation(f'{tag}|Frame.loc[:,HLoc]|{kinds}|dimension', **sinfo, got=type(r).__name__, non_scalar_selector=multi)
                r = ih.loc[key]
                if multi != isinstance(r, sf.IndexHierarchy) or (multi and [tuple(t) for t in r] != [tuples[p] for p in exp]) or (not multi and tuple(r) != tuples[exp[0]]):
                    ctx.violation(f'{tag}|IndexHierarchy.loc[HLoc]|{kinds}|labels-or-dimension', **sinfo, got=repr(r)[:200])
            except Exception as e:
                ctx.violation(f'{tag}|container.loc[HLoc]|{kinds}|raises-{type(e).__name__}', **sinfo, expected=exp, error=repr(e))
    # full tuples and lists of tuples
    for i, t in enumerate(tuples):
        ctx.transition()
        try:
            p = ih.loc_to_iloc(t)
            if int(p) != i:
                ctx.violation(f'{tag}|tuple-key', **info, key=t, got=repr(p), expected=i)
        except Exception as e:
            ctx.violation(f'{tag}|tuple-key|raises-{type(e).__name__}', **info, key=t)
    if n >= 2:
        for pair in ((n - 1, 0), (0, n - 1)):
            try:
                p = positions_of(ih.loc_to_iloc([tuples[pair[0]], tuples[pair[1]]]), n)
                if p != list(pair):
                    ctx.violation(f'{tag}|tuple-list-key', **info, got=p, expected=list(pair))
            except Exception as e:
                ctx.violation(f'{tag}|tuple-list-key|raises-{type(e).__name__}', **info)
    # whole-key Boolean mask
    m = np.array([i % 2 == 1 for i in range(n)], dtype=bool)
    try:
        p = positions_of(ih.loc_to_iloc(m), n)
        if p != [i for i in range(n) if i % 2 == 1]:
            ctx.violation(f'{tag}|whole-key-mask', **info, got=p)
    except Exception as e:
        ctx.violation(f'{tag}|whole-key-mask|raises-{type(e).__name__}', **info)


def run_tree(case, ctx):
    _, tier, i = case
    tuples = trees(tier)[i]
    info = dict(tuples=tuples)
    for rname, build in build_routes(tuples):
        rinfo = dict(info, route=rname)
        try:
            ih = build()
        except Exception as e:
            ctx.violation(f'build|{rname}|raises-{type(e).__name__}', **rinfo, error=repr(e))
            continue
        # the same selections on a second fresh instance whose arrays have not been built yet (nothing read before selecting)
        try:
            selector_battery(ctx, f'select-before-any-read|{rname}', build(), tuples, rinfo, full=False, containers=False)
        except Exception as e:
            ctx.violation(f'select-before-any-read|{rname}|raises-{type(e).__name__}', **rinfo, error=repr(e))
        check_views(ctx, f'views|{rname}', ih, tuples, rinfo)
        selector_battery(ctx, 'select' if rname == 'from_labels' else f'select|{rname}', ih, tuples, rinfo, full=rname in ('from_labels', 'from_labels(GO)+appends'),
                         containers=rname == 'from_labels')
    ctx.sample({'family': 'tree', 'tuples': repr(tuples)}, limit=1)


# ------------------------------------------------------------------ histories
GO_SEEDS = {
    'd2': ([('a', 1), ('a', 2)], [('a', 3), ('b', 1), ('b', 2), ('a', 1), ('c', 1), ('b', 3)]),
    'd3': ([('a', 1, 'x')], [('a', 1, 'y'), ('a', 2, 'x'), ('b', 1, 'x'), ('a', 1, 'x'), ('b', 1, 'y'), ('a', 3, 'x')]),
    'd2-empty': ([], [('a', 1), ('a', 2), ('b', 1), ('a', 1)]),
    # depth 3 built as a PRODUCT (sibling parents start out with one and the same sub-level): growth under one parent must not show under the others
    'd3-product': ([(o, m, l) for o in ('a', 'b') for m in (1, 2) for l in ('x', 'y')], [('b', 2, 'z'), ('b', 3, 'x'), ('c', 1, 'x'), ('b', 1, 'x'), ('b', 3, 'y'), ('c', 2, 'y')]),
    'd3-product-via-static': ([(o, m, l) for o in ('a', 'b') for m in (1, 2) for l in ('x', 'y')], [('b', 2, 'z'), ('b', 3, 'x'), ('c', 1, 'x'), ('b', 1, 'x'), ('b', 3, 'y'), ('c', 2, 'y')]),
    'd2-widths': ([('a', 'x')], [('a', 'yy'), ('b', 'zzz'), ('b', 'x'), ('a', 'x'), ('cc', 'y'), ('b', 'yy')]),
}
READS = ['values', 'values_at_depth', 'len', 'iter', 'loc_to_iloc(last)', 'copy', 'label_widths', 'HLoc[:,last-inner]']


def go_events(seed):
    init, pool = GO_SEEDS[seed]
    ev = [('append', t) for t in pool]
    ev += [('extend', (('x', 7) + (('q',) if len(pool[0]) == 3 else ()), ('x', 8) + (('q',) if len(pool[0]) == 3 else ()))),
           ('extend', (pool[1], pool[0]))]
    ev += [('read', r) for r in READS]
    ev += [('derive', 'static')]
    # extended with a GROW-ONLY hierarchy that then grows on its own: from then on two separate indices
    ev += [('extend-go-then-grow-the-argument', (('x', 7) + (('q',) if len(pool[0]) == 3 else ()), ('x', 8) + (('q',) if len(pool[0]) == 3 else ())))]
    return ev


def run_history(case, ctx):
    _, seed, first, depth = case
    init, pool = GO_SEEDS[seed]
    events = go_events(seed)
    dd = len(pool[0])

    def mk():
        if seed == 'd3-product':
            return sf.IndexHierarchyGO.from_product(('a', 'b'), (1, 2), ('x', 'y'))
        if seed == 'd3-product-via-static':
            return sf.IndexHierarchyGO(sf.IndexHierarchy.from_product(('a', 'b'), (1, 2), ('x', 'y')))
        if init:
            return sf.IndexHierarchyGO.from_labels(init)
        return sf.IndexHierarchyGO(sf.IndexHierarchy.from_labels([('q', 0)] if dd == 2 else [('q', 0, 'q')]).iloc[:0]) if False else sf.IndexHierarchyGO.from_labels([pool[1]]).iloc[:0] if False else None

    def explore(hist):
        go = mk()
        model = list(init)
        if go is None:
            # an empty grow-only hierarchy: constructed through the documented empty route
            try:
                go = sf.IndexHierarchyGO._from_empty((), depth_reference=dd)
            except Exception:
                return True
        derived = []
        info = dict(seed=seed, history=[events[i] for i in hist])
        for i in hist:
            ctx.transition()
            op, arg = events[i]
            try:
                if op == 'append':
                    bad = not tree_ordered(model + [arg])
                    try:
                        go.append(arg)
                        ok = True
                    except Exception:
                        ok = False
                    if ok and bad:
                        ctx.violation(f'go|append|invalid-accepted', **info, value=arg)
                        return False
                    if not ok and not bad:
                        ctx.violation(f'go|append|valid-rejected', **info, value=arg)
                        return False
                    if ok:
                        model.append(arg)
                elif op == 'extend':
                    vals = list(arg)
                    if not tree_ordered(vals):
                        continue
                    bad = not tree_ordered(model + vals)
                    try:
                        go.extend(sf.IndexHierarchy.from_labels(vals))
                        ok = True
                    except Exception:
                        ok = False
                    if ok and bad:
                        ctx.violation('go|extend|invalid-accepted', **info, values=vals)
                        return False
                    if ok:
                        model.extend(vals)
                    # a refusal (valid or not) must leave the index as it was: checked below by the full comparison
                elif op == 'extend-go-then-grow-the-argument':
                    vals = list(arg)
                    if not tree_ordered(model + vals):
                        continue
                    other = sf.IndexHierarchyGO.from_labels(vals)
                    try:
                        go.extend(other)
                    except Exception:
                        continue
                    model.extend(vals)
                    other.append(vals[-1][:-1] + (99,) if not isinstance(vals[-1][-1], str) else vals[-1][:-1] + ('zz',))
                    derived.append((other, vals + [vals[-1][:-1] + ((99,) if not isinstance(vals[-1][-1], str) else ('zz',))]))
                elif op == 'derive':
                    derived.append((sf.IndexHierarchy(go), list(model)))
                else:
                    if not model:
                        continue
                    if arg == 'values':
                        good = same_seq([tuple(r) for r in go.values], model)
                    elif arg == 'values_at_depth':
                        good = all(same_seq(list(go.values_at_depth(d)), [t[d] for t in model]) for d in range(dd))
                    elif arg == 'len':
                        good = len(go) == len(model)
                    elif arg == 'iter':
                        good = same_seq([tuple(t) for t in go], model)
                    elif arg == 'loc_to_iloc(last)':
                        good = int(go.loc_to_iloc(model[-1])) == len(model) - 1
                    elif arg == 'copy':
                        good = same_seq([tuple(t) for t in go.copy()], model)
                    elif arg == 'label_widths':
                        good = sum(w for _, w in go.label_widths_at_depth(0)) == len(model)
                    else:
                        last_inner = model[-1][-1]
                        sels = [ALL] * (dd - 1) + [last_inner]
                        good = positions_of(go.loc_to_iloc(sf.HLoc[tuple(sels)]), len(model)) == ref_select(model, sels)
                    if not good:
                        ctx.violation(f'go|read-{arg}|disagrees-with-model', **info, model=list(model))
                        return False
            except Exception as e:
                ctx.violation(f'go|{op}-{arg if op == "read" else ""}|raises-{type(e).__name__}', **info, error=repr(e))
                return False
        ctx.state((seed, tuple(model), bool(go._recache)))
        if len(model) >= 2:
            ctx.nontriv((seed, tuple(hist)))
        before = ctx.violation_count
        if model:
            check_views(ctx, 'go|after-history', go, list(model), info)
            if ctx.violation_count == before:
                selector_battery(ctx, 'go|after-history', go, list(model), info, full=False, containers=False)
        for dix, then in derived:
            if then:
                check_views(ctx, 'go|derived-static-after-source-grew', dix, then, info)
        return ctx.violation_count == before

    def rec(hist):
        if not explore(hist):
            return
        if len(hist) < depth:
            for j in range(len(events)):
                if len(hist) >= 1 and events[j][0] == 'read' and events[hist[-1]][0] == 'read':
                    continue   # two reads in a row: the second sees what the first already materialised
                rec(hist + [j])
    rec([first])
    ctx.sample({'family': 'history', 'seed': seed, 'first_event': repr(events[first]), 'depth': depth}, limit=1)


def run_case(case, ctx):
    (run_tree if case[0] == 'tree' else run_history)(case, ctx)
