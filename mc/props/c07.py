"""C07 No lossy coercion when values of different types meet.

Mode P.  15 column prototypes x 14 element values (and all ordered prototype
pairs) are pushed through every operation that merges typed data; each stored
element is compared with the element supplied under the rules of the statement
(type family kept, strings not truncated, ints exact, missing stays missing);
columns an operation does not address must keep their exact dtype.
"""
import datetime
import itertools

import numpy as np

import static_frame as sf
from mc import universe as U
from mc.observe import columns_of, is_missing

PROPERTY_ID = 'C07'
MODE = 'P (product enumeration: column prototypes x element values / prototype pairs x merging operations x layouts)'
RULE = ('case = (operation family, prototype, second prototype or element); every stored element of the result is paired with the element supplied and '
        'classified (ok | int-changed | int-to-float-inexact | bool-became-number | number-became-str | str-truncated | missing-became-value ...); '
        'non-trivial = the two dtype kinds differ; states = distinct (operation, prototype, other) inputs; transitions = operations compared; '
        'str with bytes pairs are outside the claim and are skipped')
ASSUMPTIONS = [
    'an integer stored as an equal-valued float / complex is accepted (the statement forbids a float that differs); a Boolean stored as a number is not',
    'datetime64 stored as an equal datetime.date / datetime in an object array is accepted (element still ==), NaT stored as None is a missing value',
    'tuples are supplied only where the interface takes a single element (fill values, element assignment)',
]

NAN = float('nan')
NAT = np.datetime64('NaT')
BIG = 2 ** 53 + 1
HUGE = 2 ** 70


def A(vals, dtype):
    if dtype == 'object':
        a = np.empty(len(vals), dtype=object)
        for i, v in enumerate(vals):
            a[i] = v
    else:
        a = np.array(vals, dtype=dtype)
    a.flags.writeable = False
    return a


PROTOS = {
    'bool': A([True, False], 'bool'),
    'int8': A([5, -3], 'int8'),
    'int64': A([7, -2], 'int64'),
    'int64big': A([BIG, -BIG], 'int64'),
    'uint8': A([200, 3], 'uint8'),
    'uint64big': A([2 ** 63 + 5, 9], 'uint64'),
    'float32': A([1.5, -0.25], 'float32'),
    'float64': A([2.5, NAN], 'float64'),
    'float32nan': A([NAN, 0.5], 'float32'),
    'float64fine': A([0.1, 1e300], 'float64'),
    'dateSnat': A(['2020-01-01T10:11:12', 'NaT'], 'datetime64[s]'),
    'tdMSnat': A([1500, 'NaT'], 'timedelta64[ms]'),
    'tdSnat': A(['NaT', 2], 'timedelta64[s]'),
    'complex128': A([1 + 2j, 3j], 'complex128'),
    'U1': A(['a', 'b'], '<U1'),
    'U4': A(['abcd', 'wxyz'], '<U4'),
    'S2': A([b'ab', b'cd'], 'S2'),
    'dateD': A(['2020-01-01', 'NaT'], 'datetime64[D]'),
    'dateY': A(['2019', '2021'], 'datetime64[Y]'),
    'tdD': A([3, 4], 'timedelta64[D]'),
    'object': A([None, 'obj'], 'object'),
}
ELEMENTS = {
    'True': True, 'int7': 7, 'int_big': BIG, 'int_huge': HUGE, 'float2.5': 2.5, 'nan': NAN, 'None': None,
    'str_long': 'longer-text', 'bytes': b'by', 'date': np.datetime64('2021-03-04'), 'NaT': NAT, 'tuple': (1, 2),
    'complex': 3 + 4j, 'np.int8': np.int8(5), 'td': np.timedelta64(9, 'D'),
}


def family(v):
    if v is None:
        return 'none'
    if isinstance(v, (bool, np.bool_)):
        return 'bool'
    if isinstance(v, (np.timedelta64, datetime.timedelta)):   # timedelta64 subclasses np.signedinteger
        return 'timedelta'
    if isinstance(v, (int, np.integer)):
        return 'int'
    if isinstance(v, (float, np.floating)):
        return 'float'
    if isinstance(v, (complex, np.complexfloating)):
        return 'complex'
    if isinstance(v, (str, np.str_)):
        return 'str'
    if isinstance(v, (bytes, np.bytes_)):
        return 'bytes'
    if isinstance(v, (np.datetime64, datetime.date)):
        return 'datetime'
    if isinstance(v, (np.timedelta64, datetime.timedelta)):
        return 'timedelta'
    if isinstance(v, tuple):
        return 'tuple'
    return type(v).__name__


def verdict(sup, sto):
    '''"ok" or a defect signature.'''
    fs, ft = family(sup), family(sto)
    if is_missing(sup):
        return 'ok' if is_missing(sto) else f'missing-became-{ft}'
    if is_missing(sto):
        return f'{fs}-became-missing'
    if fs == 'bool':
        return 'ok' if ft == 'bool' and bool(sto) == bool(sup) else f'bool-became-{ft}'
    if fs == 'int':
        if ft == 'int':
            return 'ok' if int(sto) == int(sup) else 'int-changed'
        if ft == 'float':
            f = float(sto)
            return 'ok' if f == f and f not in (float('inf'), float('-inf')) and int(f) == int(sup) else 'int-to-float-inexact'
        if ft == 'complex':
            c = complex(sto)
            return 'ok' if c.imag == 0 and int(c.real) == int(sup) else 'int-to-complex-inexact'
        return f'int-became-{ft}'
    if fs == 'float':
        if ft == 'float':
            return 'ok' if float(sto) == float(sup) else 'float-changed'
        if ft == 'complex':
            return 'ok' if complex(sto) == complex(sup) else 'float-changed'
        return f'float-became-{ft}'
    if fs == 'complex':
        return 'ok' if ft == 'complex' and complex(sto) == complex(sup) else f'complex-became-{ft}'
    if fs == 'str':
        if ft == 'str':
            if str(sto) == str(sup):
                return 'ok'
            return 'str-truncated' if str(sup).startswith(str(sto)) else 'str-changed'
        return f'str-became-{ft}'
    if fs == 'bytes':
        if ft == 'bytes':
            if bytes(sto) == bytes(sup):
                return 'ok'
            return 'bytes-truncated' if bytes(sup).startswith(bytes(sto)) else 'bytes-changed'
        return f'bytes-became-{ft}'
    if fs == 'datetime':
        if ft == 'datetime':
            try:
                return 'ok' if np.datetime64(sto) == np.datetime64(sup) else 'datetime-changed'
            except Exception:
                return 'datetime-changed'
        return f'datetime-became-{ft}'
    if fs == 'timedelta':
        if ft == 'timedelta':
            return 'ok' if np.timedelta64(sto) == np.timedelta64(sup) else 'timedelta-changed'
        return f'timedelta-became-{ft}'
    if fs == 'tuple':
        return 'ok' if ft == 'tuple' and tuple(sto) == tuple(sup) else f'tuple-became-{ft}'
    return 'ok' if sto == sup else f'{fs}-changed'


KIND_CLASS = {
    'int8': 'int', 'int64': 'int', 'uint8': 'int', 'np.int8': 'int', 'int7': 'int',
    'int64big': 'int64>2**53', 'uint64big': 'uint64>2**53', 'int_big': 'pyint>2**53', 'int_huge': 'pyint>2**64',
    'float32': 'float', 'float64': 'float', 'float32nan': 'float', 'float64fine': 'float', 'dateSnat': 'datetime', 'tdMSnat': 'timedelta', 'tdSnat': 'timedelta', 'float2.5': 'float', 'nan': 'float',
    'complex128': 'complex', 'complex': 'complex', 'U1': 'str', 'U4': 'str', 'str_long': 'str', 'S2': 'bytes', 'bytes': 'bytes',
    'dateD': 'datetime', 'dateY': 'datetime', 'date': 'datetime', 'NaT': 'datetime', 'tdD': 'timedelta', 'td': 'timedelta',
    'bool': 'bool', 'True': 'bool', 'object': 'object', 'None': 'none', 'tuple': 'tuple',
}


def kind_of(name):
    '''coarse class of a prototype / element, used in violation keys'''
    return KIND_CLASS[name]


def mixes_str_bytes(*names):
    fams = set()
    for n in names:
        if n in ('U1', 'U4', 'str_long'):
            fams.add('s')
        if n in ('S2', 'bytes'):
            fams.add('b')
        if n == 'object':
            fams.add('s')      # the object prototype holds a str
    return fams == {'s', 'b'}


OPS_ELEMENT = ['series.assign-partial-series(fill_value)', 'frame.assign-partial-frame(fill_value)', 'series.reindex', 'series.shift', 'series.assign.iloc', 'series.assign.loc', 'series.fillna', 'frame.reindex', 'frame.shift',
               'frame.assign.iloc', 'frame.fillna', 'frame.from_records', 'frame.from_dict_records', 'index.append', 'frame.assign.bloc',
               'py.series', 'py.from_records', 'py.from_dict_records', 'py.from_dict', 'py.framego-setitem-list', 'py.series-assign-list', 'py.from_items',
               'frame2d.assign.iloc', 'frame2d.assign.column', 'frame2d.reindex', 'frame2d.shift', 'frame2d.fillna', 'frame2d.assign.bloc']
OPS_PAIR = ['series.from_concat', 'frame.from_concat0', 'frame.from_concat1', 'frame.assign.col-array', 'frame.assign.col-series', 'frame.insert_after',
            'frame.values-row', 'frame.iloc-row', 'frame.iter_array1', 'frame.from_items', 'series.from_overlay', 'frame.from_records-rows',
            'frame.relabel-keep-dtype', 'frame.iter_tuple1', 'frame.fillna_forward1', 'frame.fillna_backward1', 'frame.assign-rows-frame-into-2d-block',
            'frame.assign-rows-frame-into-1d-blocks', 'framego.setitem-then-rows', 'framego.extend-then-rows', 'framego.extend_items-then-rows',
            'series.from_concat-aba', 'frame.from_concat0-aba', 'index.append-via-concat-aba', 'frame.from_overlay-into-2d-float-block', 'frame.from_overlay-into-2d-object-block',
            'frame.from_items(consolidate_blocks)', 'frame.astype-other-column(consolidates)', 'frame.from_concat1(consolidate_blocks)',
            'framego.extend_items(fill_value)', 'framego.extend(fill_value)', 'framego.setitem(fill_value)']


def cases(tier):
    for opname in OPS_ELEMENT:
        for p in PROTOS:
            yield ('elem', opname, p)
    for opname in OPS_PAIR:
        for p in PROTOS:
            yield ('pair', opname, p)


def universe(tier):
    return {'prototypes': {k: str(v.dtype) for k, v in PROTOS.items()}, 'elements': list(ELEMENTS), 'element_ops': OPS_ELEMENT, 'pair_ops': OPS_PAIR}


def compare(ctx, tag, pairs, info, left, right, collapse=True):
    '''pairs: iterable of (supplied, stored).'''
    for sup, sto in pairs:
        v = verdict(sup, sto)
        ctx.outcome(v)
        if v != 'ok':
            kl, kr = kind_of(left), kind_of(right)
            if collapse and v in ('int-to-float-inexact', 'int-to-complex-inexact') and ('>2**' in kl or '>2**' in kr):
                # one root cause whatever the operation: dtype resolution follows NumPy promotion (int64/uint64 + float -> float64,
                # uint64 + signed -> float64), which cannot hold integers above 2**53
                tag = 'dtype-resolution'
            ctx.violation(f'{tag}|{kl}+{kr}|{v}', **info, supplied=repr(sup), stored=repr(sto), stored_type=type(sto).__name__)
            return False
    return True


def untouched(ctx, tag, before, after, info, left, right):
    if before != after:
        ctx.violation(f'{tag}|unaddressed-column-dtype-changed|{kind_of(left)}+{kind_of(right)}', **info, before=before, after=after)


def run_elem(case, ctx):
    _, opname, pname = case
    proto = PROTOS[pname]
    other = PROTOS['int8']           # a bystander column that no element operation addresses
    for ename, v in ELEMENTS.items():
        if mixes_str_bytes(pname, ename):
            continue
        if ename == 'tuple' and opname.startswith('frame2d.'):
            continue
        if ename == 'tuple' and opname in ('frame.from_records', 'frame.from_dict_records', 'index.append', 'frame.assign.bloc', 'series.fillna', 'frame.fillna',
                                          'series.assign.iloc', 'series.assign.loc', 'frame.assign.iloc'):
            continue  # a tuple there is a row / a label, not a single element
        ctx.state((opname, pname, ename))
        ctx.transition()
        if proto.dtype.kind != np.asarray(v if ename != 'tuple' else 0).dtype.kind:
            ctx.nontriv((opname, pname, ename))
        info = dict(op=opname, prototype=pname, dtype=str(proto.dtype), element=ename)
        orig = list(proto)
        s = sf.Series(proto, index=('x', 'y'), name='s')
        f = sf.Frame.from_items((('p', proto), ('q', other)), index=('x', 'y'), name='f')
        try:
            if opname == 'series.reindex':
                r = s.reindex(('y', 'z', 'x'), fill_value=v)
                pairs = zip([orig[1], v, orig[0]], list(r.values))
            elif opname == 'series.shift':
                r = s.shift(1, fill_value=v)
                pairs = zip([v, orig[0]], list(r.values))
            elif opname == 'series.assign.iloc':
                r = s.assign.iloc[1](v)
                pairs = zip([orig[0], v], list(r.values))
            elif opname == 'series.assign.loc':
                r = s.assign.loc[['x']](v)
                pairs = zip([v, orig[1]], list(r.values))
            elif opname == 'series.assign-partial-series(fill_value)':
                # a Series value that lacks one of the addressed labels: that cell receives the fill value supplied
                if ename == 'tuple':
                    continue
                r = s.assign[['x', 'y']](sf.Series(proto[:1], index=('x',)), fill_value=v)
                pairs = zip([orig[0], v], list(r.values))
            elif opname == 'frame.assign-partial-frame(fill_value)':
                if ename == 'tuple':
                    continue
                r = f.assign.loc[['x', 'y'], ['p']](sf.Frame.from_items((('p', proto[:1]),), index=('x',)), fill_value=v)
                pairs = zip([orig[0], v], list(columns_of(r)[0]))
                untouched(ctx, opname, str(other.dtype), str(columns_of(r)[1].dtype), info, pname, ename)
            elif opname == 'series.fillna':
                if is_missing(v):
                    continue
                r = s.fillna(v)
                pairs = zip([v if is_missing(o) else o for o in orig], list(r.values))
            elif opname == 'frame.reindex':
                r = f.reindex(index=('y', 'z'), fill_value=v)
                pairs = list(zip([orig[1], v], list(columns_of(r)[0]))) + list(zip([other[1], v], list(columns_of(r)[1])))
            elif opname == 'frame.shift':
                r = f.shift(index=1, fill_value=v)
                pairs = list(zip([v, orig[0]], list(columns_of(r)[0]))) + list(zip([v, other[0]], list(columns_of(r)[1])))
            elif opname == 'frame.assign.iloc':
                r = f.assign.iloc[0, 0](v)
                pairs = zip([v, orig[1]], list(columns_of(r)[0]))
                untouched(ctx, opname, str(other.dtype), str(columns_of(r)[1].dtype), info, pname, ename)
            elif opname == 'frame.assign.bloc':
                mask = sf.Frame.from_records([[False, False], [True, False]], index=('x', 'y'), columns=('p', 'q'))
                r = f.assign.bloc[mask](v)
                pairs = zip([orig[0], v], list(columns_of(r)[0]))
                untouched(ctx, opname, str(other.dtype), str(columns_of(r)[1].dtype), info, pname, ename)
            elif opname == 'frame.fillna':
                if is_missing(v):
                    continue
                r = f.fillna(v)
                pairs = zip([v if is_missing(o) else o for o in orig], list(columns_of(r)[0]))
                untouched(ctx, opname, str(other.dtype), str(columns_of(r)[1].dtype), info, pname, ename)
            elif opname.startswith('frame2d.'):
                # the prototype column shares a 2-D block with a twin column; a third column is a bystander of another dtype
                if proto.dtype == object:
                    twin = proto
                    blk = np.empty((2, 2), dtype=object)
                    blk[:, 0] = proto
                    blk[:, 1] = proto
                else:
                    blk = np.column_stack([proto, proto])
                blk.flags.writeable = False
                f2 = sf.Frame(sf.TypeBlocks.from_blocks([blk, other]), index=('x', 'y'), columns=('p', 'p2', 'q'), own_data=True)
                sub = opname.split('.', 1)[1]
                if sub == 'assign.iloc':
                    r = f2.assign.iloc[0, 0](v)
                    pairs = list(zip([v, orig[1]], list(columns_of(r)[0]))) + list(zip(orig, list(columns_of(r)[1])))
                    untouched(ctx, opname, str(other.dtype), str(columns_of(r)[2].dtype), info, pname, ename)
                elif sub == 'assign.column':
                    r = f2.assign['p'](v)
                    pairs = list(zip([v, v], list(columns_of(r)[0]))) + list(zip(orig, list(columns_of(r)[1])))
                    untouched(ctx, opname, (str(proto.dtype), str(other.dtype)), (str(columns_of(r)[1].dtype), str(columns_of(r)[2].dtype)), info, pname, ename)
                elif sub == 'assign.bloc':
                    mask = sf.Frame.from_records([[False, False, False], [False, True, False]], index=('x', 'y'), columns=('p', 'p2', 'q'))
                    r = f2.assign.bloc[mask](v)
                    pairs = list(zip(orig, list(columns_of(r)[0]))) + list(zip([orig[0], v], list(columns_of(r)[1])))
                    untouched(ctx, opname, str(other.dtype), str(columns_of(r)[2].dtype), info, pname, ename)
                elif sub == 'reindex':
                    r = f2.reindex(index=('y', 'z'), fill_value=v)
                    pairs = list(zip([orig[1], v], list(columns_of(r)[0]))) + list(zip([orig[1], v], list(columns_of(r)[1]))) + list(zip([other[1], v], list(columns_of(r)[2])))
                elif sub == 'shift':
                    r = f2.shift(index=1, fill_value=v)
                    pairs = list(zip([v, orig[0]], list(columns_of(r)[0]))) + list(zip([v, orig[0]], list(columns_of(r)[1])))
                else:
                    if is_missing(v):
                        continue
                    r = f2.fillna(v)
                    exp = [v if is_missing(o) else o for o in orig]
                    pairs = list(zip(exp, list(columns_of(r)[0]))) + list(zip(exp, list(columns_of(r)[1])))
                    untouched(ctx, opname, str(other.dtype), str(columns_of(r)[2].dtype), info, pname, ename)
            elif opname == 'frame.from_records':
                r = sf.Frame.from_records([[orig[0], 1], [v, 2]], columns=('p', 'q'))
                pairs = zip([orig[0], v], list(columns_of(r)[0]))
            elif opname == 'frame.from_dict_records':
                r = sf.Frame.from_dict_records([dict(p=orig[0], q=1), dict(p=v, q=2)])
                pairs = zip([orig[0], v], list(columns_of(r)[0]))
            elif opname.startswith('py.'):
                # plain Python values (what a user types), in both orders and with the element first / last of three
                py = [o.item() if hasattr(o, 'item') and proto.dtype.kind not in 'mM' else o for o in orig]
                ok_all = True
                for oi, seq in enumerate(([py[0], v], [v, py[0]], [py[0], py[1], v], [v, py[1], py[0]])):
                    sub = opname[3:]
                    if sub == 'series':
                        got = list(sf.Series(seq).values)
                    elif sub == 'from_records':
                        got = list(columns_of(sf.Frame.from_records([[x, 1] for x in seq], columns=('p', 'q')))[0])
                    elif sub == 'from_dict_records':
                        got = list(columns_of(sf.Frame.from_dict_records([dict(p=x, q=1) for x in seq]))[0])
                    elif sub == 'from_dict':
                        got = list(columns_of(sf.Frame.from_dict(dict(p=seq, q=list(range(len(seq))))))[0])
                    elif sub == 'from_items':
                        got = list(columns_of(sf.Frame.from_items((('p', seq), ('q', list(range(len(seq)))))))[0])
                    elif sub == 'framego-setitem-list':
                        g = sf.FrameGO(index=range(len(seq)))
                        g['q'] = list(range(len(seq)))
                        g['p'] = seq
                        got = list(columns_of(g)[1])
                    else:
                        s0 = sf.Series([0] * len(seq))
                        got = list(s0.assign.iloc[list(range(len(seq)))](seq).values)
                    ok_all = compare(ctx, 'untyped-python-values', zip(seq, got), dict(info, order=oi, values=repr(seq)), pname, ename, collapse=False) and ok_all
                    ctx.transition()
                continue
            elif opname == 'index.append':
                if is_missing(v) or is_missing(orig[1]) or is_missing(orig[0]):
                    continue  # NaN labels are outside the claims on indices
                try:
                    ix = sf.IndexGO(proto)
                except Exception:
                    continue
                if v in ix:
                    continue
                ix.append(v)
                pairs = zip(orig + [v], list(ix.values))
            else:
                raise AssertionError(opname)
        except Exception as e:
            # a refusal stores nothing: not a coercion (and not this property's concern)
            ctx.outcome('raises:' + type(e).__name__)
            ctx.count('refused')
            continue
        compare(ctx, opname, pairs, info, pname, ename)
    ctx.sample({'family': 'elem', 'op': opname, 'prototype': pname}, limit=1)


def run_pair(case, ctx):
    _, opname, pname = case
    a = PROTOS[pname]
    la = list(a)
    for qname, b in PROTOS.items():
        if mixes_str_bytes(pname, qname):
            continue
        lb = list(b)
        ctx.state((opname, pname, qname))
        ctx.transition()
        if a.dtype.kind != b.dtype.kind:
            ctx.nontriv((opname, pname, qname))
        info = dict(op=opname, left=pname, right=qname, dtypes=(str(a.dtype), str(b.dtype)))
        fa = sf.Frame.from_items((('p', a),), index=('x', 'y'))
        fb = sf.Frame.from_items((('p', b),), index=('z', 'w'))
        fab = sf.Frame.from_items((('p', a), ('q', b)), index=('x', 'y'))
        try:
            if opname == 'series.from_concat':
                r = sf.Series.from_concat((sf.Series(a, index=('x', 'y')), sf.Series(b, index=('z', 'w'))))
                pairs = zip(la + lb, list(r.values))
            elif opname == 'frame.from_concat0':
                r = sf.Frame.from_concat((fa, fb))
                pairs = zip(la + lb, list(columns_of(r)[0]))
            elif opname == 'frame.from_concat1':
                r = sf.Frame.from_concat((fa, sf.Frame.from_items((('q', b),), index=('x', 'y'))), axis=1)
                pairs = list(zip(la, list(columns_of(r)[0]))) + list(zip(lb, list(columns_of(r)[1])))
                untouched(ctx, opname, (str(a.dtype), str(b.dtype)), tuple(str(c.dtype) for c in columns_of(r)), info, pname, qname)
            elif opname == 'frame.assign.col-array':
                r = fab.assign['p'](b)
                pairs = zip(lb, list(columns_of(r)[0]))
                untouched(ctx, opname, str(b.dtype), str(columns_of(r)[1].dtype), info, pname, qname)
            elif opname == 'frame.assign.col-series':
                r = fab.assign.loc['y', 'p'](lb[0])
                pairs = zip([la[0], lb[0]], list(columns_of(r)[0]))
                untouched(ctx, opname, str(b.dtype), str(columns_of(r)[1].dtype), info, pname, qname)
            elif opname == 'frame.insert_after':
                r = fa.insert_after('p', sf.Series(b, index=('x', 'y'), name='q'))
                pairs = list(zip(la, list(columns_of(r)[0]))) + list(zip(lb, list(columns_of(r)[1])))
                untouched(ctx, opname, str(a.dtype), str(columns_of(r)[0].dtype), info, pname, qname)
            elif opname == 'frame.values-row':
                v = fab.values
                pairs = zip([la[0], lb[0], la[1], lb[1]], [v[0, 0], v[0, 1], v[1, 0], v[1, 1]])
            elif opname == 'frame.iloc-row':
                r = fab.iloc[0]
                pairs = zip([la[0], lb[0]], list(r.values))
            elif opname == 'frame.iter_array1':
                rows = list(fab.iter_array(axis=1))
                pairs = zip([la[0], lb[0], la[1], lb[1]], [rows[0][0], rows[0][1], rows[1][0], rows[1][1]])
            elif opname == 'frame.iter_tuple1':
                rows = list(fab.iter_tuple(axis=1))
                pairs = zip([la[0], lb[0], la[1], lb[1]], [rows[0][0], rows[0][1], rows[1][0], rows[1][1]])
            elif opname == 'frame.from_items':
                r = sf.Frame.from_items((('p', la), ('q', lb)))
                pairs = list(zip(la, list(columns_of(r)[0]))) + list(zip(lb, list(columns_of(r)[1])))
            elif opname == 'frame.from_records-rows':
                r = sf.Frame.from_records([[la[0], lb[0]], [la[1], lb[1]]])
                pairs = list(zip(la, list(columns_of(r)[0]))) + list(zip(lb, list(columns_of(r)[1])))
            elif opname == 'series.from_overlay':
                sa = sf.Series(a, index=('x', 'y'))
                sb = sf.Series(b, index=('y', 'z'))
                r = sf.Series.from_overlay((sa, sb))
                exp = {'x': la[0], 'y': lb[0] if is_missing(la[1]) else la[1], 'z': lb[1]}
                pairs = [(exp[k], r[k]) for k in ('x', 'y', 'z')]
            elif opname in ('frame.fillna_forward1', 'frame.fillna_backward1'):
                # directional fill along axis 1 carries a value of column p into the missing cells of its neighbour q
                fwd = opname.endswith('forward1')
                src, dst = (la, lb) if fwd else (lb, la)
                r = fab.fillna_forward(axis=1) if fwd else fab.fillna_backward(axis=1)
                rc = columns_of(r)
                got_dst = list(rc[1] if fwd else rc[0])
                got_src = list(rc[0] if fwd else rc[1])
                exp_dst = [(s_ if is_missing(d_) else d_) for s_, d_ in zip(src, dst)]
                pairs = list(zip(exp_dst, got_dst)) + list(zip(src, got_src))
            elif opname.startswith('frame.assign-rows-frame-into'):
                # a Frame value with two differently typed columns assigned into a row subset of two int8 columns
                tcols = [A([1, 2], 'int8'), A([3, 4], 'int8')]
                blocks = [np.column_stack(tcols)] if opname.endswith('2d-block') else tcols
                for b_ in blocks:
                    b_.flags.writeable = False
                tgt = sf.Frame(sf.TypeBlocks.from_blocks(blocks), index=('x', 'y'), columns=('p', 'q'), own_data=True)
                val = sf.Frame.from_items((('p', a[:1]), ('q', b[:1])), index=('y',))
                r = tgt.assign.loc[['y'], ['p', 'q']](val)
                rc = columns_of(r)
                pairs = [(1, rc[0][0]), (la[0], rc[0][1]), (3, rc[1][0]), (lb[0], rc[1][1])]
            elif opname.endswith('-then-rows'):
                # a grow-only Frame built column by column, then read row-wise (rows consolidate every column into one array)
                g = sf.FrameGO.from_items((('p', a),), index=('x', 'y'))
                if opname == 'framego.setitem-then-rows':
                    g['q'] = b
                    g['r'] = a
                elif opname == 'framego.extend-then-rows':
                    g.extend(sf.Frame.from_items((('q', b), ('r', a)), index=('x', 'y')))
                else:
                    g.extend_items((('q', b), ('r', a)))
                exp = [la[0], lb[0], la[0], la[1], lb[1], la[1]]
                v = g.values
                rows = list(g.iter_array(axis=1))
                tups = list(g.iter_tuple(axis=1))
                gt = columns_of(g.transpose())
                pairs = (list(zip(exp, [v[0, 0], v[0, 1], v[0, 2], v[1, 0], v[1, 1], v[1, 2]])) + list(zip(exp[:3], list(g.iloc[0].values)))
                         + list(zip(exp[3:], list(g.iloc[1].values))) + list(zip(exp, list(rows[0]) + list(rows[1]))) + list(zip(exp, list(tups[0]) + list(tups[1])))
                         + list(zip(exp[:3], [c[0] for c in (gt[0],)] and list(gt[0]))) + list(zip(exp[3:], list(gt[1]))))
                untouched(ctx, opname, (str(a.dtype), str(b.dtype), str(a.dtype)), tuple(str(c.dtype) for c in columns_of(g)), info, pname, qname)
            elif opname == 'series.from_concat-aba':
                # three containers, the middle one of another dtype (same kind wider, or another kind)
                r = sf.Series.from_concat((sf.Series(a, index=('x', 'y')), sf.Series(b, index=('z', 'w')), sf.Series(a, index=('u', 'v'))))
                pairs = zip(la + lb + la, list(r.values))
            elif opname == 'frame.from_concat0-aba':
                r = sf.Frame.from_concat((fa, fb, fa.relabel(index=('u', 'v'))))
                pairs = zip(la + lb + la, list(columns_of(r)[0]))
            elif opname == 'index.append-via-concat-aba':
                if any(is_missing(v) for v in la + lb) or len(set(map(repr, la + lb))) < 4:
                    continue
                r = sf.Index.from_labels if False else None
                ia, ib = sf.Index(a), sf.Index(b)
                r = ia.union(ib).union(ia)       # set operations concatenate label arrays of both dtypes
                stored = list(r.values)
                pairs = [(v, next((x for x in stored if verdict(v, x) == 'ok'), stored[0])) for v in la + lb]
                if len(stored) != 4:
                    pairs.append((4, len(stored)))
            elif opname.startswith('frame.from_overlay-into-2d'):
                # the first container holds the union of the columns in ONE 2-D block with a hole in each column; the second supplies both columns, each of its own dtype
                if opname.endswith('float-block'):
                    blk = np.array([[1.5, np.nan], [np.nan, 2.5]])
                    keep = (1.5, 2.5)
                else:
                    blk = np.empty((2, 2), dtype=object)
                    blk[0, 0], blk[0, 1], blk[1, 0], blk[1, 1] = 'k', None, None, 'm'
                    keep = ('k', 'm')
                blk.flags.writeable = False
                f1 = sf.Frame(sf.TypeBlocks.from_blocks([blk]), index=('x', 'y'), columns=('p', 'q'), own_data=True)
                r = sf.Frame.from_overlay((f1, fab))
                rc = columns_of(r)
                blockname = 'float64' if opname.endswith('float-block') else 'object'
                # each column is a merge of the block's dtype with the dtype of the column that fills its hole
                compare(ctx, opname, [(keep[0], rc[0][0]), (la[1], rc[0][1])], info, blockname, pname)
                compare(ctx, opname, [(lb[0], rc[1][0]), (keep[1], rc[1][1])], info, blockname, qname)
                continue
            elif opname in ('frame.from_items(consolidate_blocks)', 'frame.astype-other-column(consolidates)', 'frame.from_concat1(consolidate_blocks)'):
                # consolidation joins adjacent columns of ONE dtype into a block: neighbours of another dtype (width, unit) keep their cells and dtypes
                bystander = PROTOS['U1']
                if opname.startswith('frame.from_items'):
                    r = sf.Frame.from_items((('p', a), ('q', b), ('z', bystander)), index=('x', 'y'), consolidate_blocks=True)
                elif opname.startswith('frame.astype'):
                    r = sf.Frame.from_items((('p', a), ('q', b), ('z', bystander)), index=('x', 'y')).astype['z'](object)
                else:
                    r = sf.Frame.from_concat((fa, sf.Frame.from_items((('q', b), ('z', bystander)), index=('x', 'y'))), axis=1, consolidate_blocks=True)
                pairs = list(zip(la, list(columns_of(r)[0]))) + list(zip(lb, list(columns_of(r)[1])))
                untouched(ctx, opname, (str(a.dtype), str(b.dtype)), tuple(str(c.dtype) for c in columns_of(r)[:2]), info, pname, qname)
            elif opname in ('framego.extend_items(fill_value)', 'framego.extend(fill_value)', 'framego.setitem(fill_value)'):
                # a Series that does not cover the index is completed with the fill value supplied (an element of the second prototype)
                g = sf.FrameGO.from_items((('p', a),), index=('x', 'y'))
                part = sf.Series(a[:1], index=('x',), name='n')
                fill = lb[0]
                if is_missing(fill):
                    continue
                if opname.startswith('framego.extend_items'):
                    g.extend_items((('n', part),), fill_value=fill)
                elif opname.startswith('framego.extend('):
                    g.extend(part, fill_value=fill)
                else:
                    g.__setitem__('n', part, fill)
                pairs = [(la[0], columns_of(g)[1][0]), (fill, columns_of(g)[1][1])]
                untouched(ctx, opname, str(a.dtype), str(columns_of(g)[0].dtype), info, pname, qname)
            elif opname == 'frame.relabel-keep-dtype':
                r = fab.relabel(columns=('u', 'v')).rename('nn').reindex(index=('y', 'x'))
                pairs = list(zip(la[::-1], list(columns_of(r)[0]))) + list(zip(lb[::-1], list(columns_of(r)[1])))
                untouched(ctx, opname, (str(a.dtype), str(b.dtype)), tuple(str(c.dtype) for c in columns_of(r)), info, pname, qname)
            else:
                raise AssertionError(opname)
        except Exception as e:
            ctx.outcome('raises:' + type(e).__name__)
            ctx.count('refused')
            continue
        compare(ctx, opname, pairs, info, pname, qname)
    ctx.sample({'family': 'pair', 'op': opname, 'prototype': pname}, limit=1)


def run_case(case, ctx):
    (run_elem if case[0] == 'elem' else run_pair)(case, ctx)
