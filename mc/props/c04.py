"""C04 Selection returns exactly the addressed rows/columns with their labels.

Mode P.  Series and Frames over several index kinds (explicit str / int, mixed
objects, auto-integer, datetime, hierarchical) are selected with every key of a
bounded key universe on one or both axes through iloc / loc / [] / bloc, and the
result (kind, labels in order, values, name) is compared with the reference
axis model of mc/refsel.py.
"""
import datetime
import itertools

import numpy as np

import static_frame as sf
from mc import universe as U
from mc.observe import columns_of, is_missing, norm
from mc.refsel import RefAxis, RefDateAxis, RefDuplicate, RefLookupError, check_unique, lk

PROPERTY_ID = 'C04'
MODE = 'P (product enumeration: container x index kind x key universe x route x layout; reference axis model)'
RULE = ('case = (container family, index kind(s), size, route, layout, shard); every key of the key universe (ints in [-n-1, n], all slices over '
        '[-n-1, n+1] x steps, lists with repeats, all Boolean masks, labels incl. absent ones, label lists / slices / Boolean Series / Index / ILoc) is applied; '
        'non-trivial = key that addresses a proper non-empty subset or re-orders; states = distinct (container, key) pairs; transitions = selections compared')
ASSUMPTIONS = [
    'any exception is accepted where the reference says the key addresses an absent label / position or repeats a position (the statement only forbids returning data)',
    'cells compare by Python == within a type family (a row Series consolidates column dtypes; exact dtypes are C07)',
    'bloc results are compared as a mapping (row, column) -> value; their order is not fixed by the statement',
]


def eqv(a, b):
    ma, mb = is_missing(a), is_missing(b)
    if ma or mb:
        return ma and mb
    if isinstance(a, (str, np.str_)) != isinstance(b, (str, np.str_)):
        return False
    try:
        return bool(a == b)
    except Exception:
        return False


# ------------------------------------------------------------------ axes
DATES = ['2020-01-30', '2020-01-31', '2020-02-01', '2021-01-01']
DATES_U = ['2020-02-01', '2020-01-30', '2021-01-01', '2020-01-31']      # not in chronological order


def make_axis(kind, n):
    '''returns (index initializer for sf, RefAxis)'''
    if kind == 'str':
        labels = ['b', 'a', 'd', 'c'][:n]
        return sf.Index(labels) if n else sf.Index((), dtype='<U1'), RefAxis(labels)
    if kind == 'int':
        labels = [20, 10, 0, -1][:n]
        return sf.Index(np.array(labels, dtype=np.int64)), RefAxis(labels)
    if kind == 'obj':
        labels = ['a', 1, 2.5, (3, 4)][:n]
        a = np.empty(n, dtype=object)
        for i, x in enumerate(labels):
            a[i] = x
        return sf.Index(a), RefAxis(labels, 'obj')
    if kind == 'auto':
        labels = list(range(n))
        return None, RefAxis(labels, 'auto')
    if kind in ('auto_step2', 'auto_rev'):
        # derived from an auto-integer index by a positional slice (the container is derived in derive()): labels are
        # ordinary integer labels afterwards
        labels = list(range(0, 2 * n, 2)) if kind == 'auto_step2' else list(range(n))[::-1]
        return None, RefAxis(labels)
    if kind in ('date', 'date_unsorted'):
        dd = DATES if kind == 'date' else DATES_U
        labels = [np.datetime64(d) for d in dd[:n]]
        return sf.IndexDate(dd[:n]), RefDateAxis(labels)
    if kind == 'ih':
        labels = [('a', 1), ('a', 2), ('b', 1), ('b', 3)][:n]
        return sf.IndexHierarchy.from_labels(labels), RefAxis(labels)
    raise ValueError(kind)


def derive(kind, n):
    '''(source length, positional key) that produces the derived axis from an auto-integer one'''
    return (2 * n - 1 if n else 0, slice(None, None, 2)) if kind == 'auto_step2' else (n, slice(None, None, -1))


def absent_labels(kind):
    if kind in ('auto_step2', 'auto_rev'):
        return [1 if kind == 'auto_step2' else 77, -1]
    return {'str': ['zz'], 'int': [5, 1], 'obj': ['zz', 7], 'auto': [-1, 99], 'date': [np.datetime64('2020-01-15')], 'date_unsorted': [np.datetime64('2020-01-15')], 'ih': [('a', 9), ('z', 1)]}[kind]


# ------------------------------------------------------------------ keys
def pos_keys(n, full=True):
    keys = [('int', k) for k in U.int_keys(n)]
    steps = (None, 1, 2, -1, -2) if full else (None, 2, -1)
    ends = [None] + list(range(-n - 1, n + 2)) if full else [None, 0, 1, -1, n + 1]
    keys += [('slice', slice(a, b, c)) for a in ends for b in ends for c in steps]
    keys += [('list', k) for k in U.list_keys(n, 3 if full else 2)]
    keys += [('int-array', np.array(k, dtype=np.int64)) for k in U.list_keys(n, 2) if k]
    keys += [('mask', m) for m in U.mask_keys(n)]
    return keys


def label_keys(kind, ref, full=True):
    labels = ref.labels
    n = len(labels)
    ab = absent_labels(kind)
    keys = [('label', l) for l in labels] + [('absent-label', a) for a in ab]
    pool = labels + (ab if kind == 'auto' else ab[:1])
    for L in (0, 1, 2) + ((3,) if full and n <= 3 else ()):
        for t in itertools.product(pool, repeat=L):
            has_abs = any(lk(x) not in ref.pos for x in t)
            keys.append(('label-list-with-absent' if has_abs else 'label-list', list(t)))
    ends = [None] + pool
    for a in ends:
        for b in ends:
            for c in ((None, 2) if full else (None,)):
                if a is None and b is None and c is None:
                    continue
                has_abs = any(x is not None and lk(x) not in ref.pos for x in (a, b))
                keys.append(('label-slice-absent-end' if has_abs else 'label-slice', slice(a, b, c)))
    keys += [('mask', m) for m in U.mask_keys(n)]
    if kind == 'ih' and n:
        # Boolean Series keys labelled by a hierarchy: aligned, reversed (still tree-shaped), partial
        for bits in itertools.product((False, True), repeat=n):
            keys.append(('bool-series', sf.Series(list(bits), index=sf.IndexHierarchy.from_labels(labels))))
            if n > 1:
                keys.append(('bool-series-permuted', sf.Series(list(bits)[::-1], index=sf.IndexHierarchy.from_labels(labels[::-1]))))
                keys.append(('bool-series-partial', sf.Series(list(bits[:n - 1]), index=sf.IndexHierarchy.from_labels(labels[:n - 1]))))
    if kind != 'ih':
        # Boolean Series keys: aligned, permuted, partial (missing labels count as False), with an extra unknown label
        for bits in itertools.product((False, True), repeat=n):
            if n:
                keys.append(('bool-series', sf.Series(list(bits), index=make_axis(kind, n)[0] if kind != 'auto' else None)))
                perm = list(range(n))[::-1]
                ix = [labels[i] for i in perm]
                if kind == 'obj':
                    a = np.empty(n, dtype=object)
                    for q, x in enumerate(ix):
                        a[q] = x
                    ix = a
                keys.append(('bool-series-permuted', sf.Series([bits[i] for i in perm], index=ix if not kind.startswith('date') else sf.IndexDate(ix))))
                if n > 1:
                    ix2 = [labels[i] for i in range(n - 1)]
                    if kind == 'obj':
                        a = np.empty(n - 1, dtype=object)
                        for q, x in enumerate(ix2):
                            a[q] = x
                        ix2 = a
                    keys.append(('bool-series-partial', sf.Series(list(bits[:n - 1]), index=ix2 if not kind.startswith('date') else sf.IndexDate(ix2))))
        for t in itertools.permutations(range(n), min(n, 2)):
            sub = [labels[i] for i in t]
            if kind == 'obj':
                a = np.empty(len(sub), dtype=object)
                for q, x in enumerate(sub):
                    a[q] = x
                keys.append(('index-key', sf.Index(a)))
            elif kind.startswith('date'):
                keys.append(('index-key', sf.IndexDate(sub)))
            else:
                keys.append(('index-key', sf.Index(sub)))
                if len(sub) == 2:
                    keys.append(('index-go-key-just-grown', FreshGO(sub)))
    for kname, k in pos_keys(n, full=False)[:: (1 if full else 3)]:
        keys.append(('ILoc-' + kname, sf.ILoc[k]))
    if kind.startswith('date'):
        extra = ['2020-01-30', '2020-01', '2020-02', '2020', '2021', '2019', '2020-03', datetime.date(2020, 1, 31), datetime.date(2020, 1, 15),
                 np.datetime64('2020-01'), np.datetime64('2020'), np.datetime64('2020-02-01')]
        keys += [('date-key', k) for k in extra]
        for a in (None, '2020-01-31', '2020-01', '2020-02', '2020', datetime.date(2020, 2, 1), '2020-01-15', '2020-03'):
            for b in (None, '2020-01-31', '2020-01', '2020-02', '2020', '2021', datetime.date(2020, 2, 1), '2020-01-15', '2020-03'):
                if a is None and b is None:
                    continue
                keys.append(('date-slice', slice(a, b)))
        keys += [('date-list', ['2020-01-31', '2020-01-30']), ('date-list', [datetime.date(2020, 2, 1)])]
        # the same instants in another unit, in an order of their own (what aligning with an index of that unit hands over)
        dd = DATES if kind == 'date' else DATES_U
        if n >= 2:
            keys.append(('date-array-other-unit', np.array(sorted(dd[:n], reverse=True), dtype='datetime64[s]')))
            keys.append(('date-array-other-unit', np.array([dd[n - 1], dd[0], dd[n - 1]], dtype='datetime64[h]')))
    return keys


def auto_class(kind, key):
    '''For the auto-integer index: is the absent label a negative integer (wraps like a position) or beyond the end?'''
    if kind != 'auto':
        return ''
    vals = []
    if isinstance(key, slice):
        vals = [x for x in (key.start, key.stop) if x is not None]
    elif isinstance(key, (list, np.ndarray)):
        vals = list(key)
    elif isinstance(key, (int, np.integer)):
        vals = [key]
    if any(isinstance(v, (int, np.integer)) and v < 0 for v in vals):
        return ':negative-integer-label'
    return ':label-beyond-end'


def key_repr(k):
    if isinstance(k, np.ndarray):
        return f'array({k.tolist()},{k.dtype})'
    if isinstance(k, sf.Series):
        return f'Series({k.values.tolist()},index={list(k.index)})'
    if isinstance(k, sf.Index):
        return f'Index({k.values.tolist()})'
    if isinstance(k, sf.ILoc):
        return f'ILoc[{key_repr(k.key)}]'
    return repr(k)


def nontrivial_sel(sel, n):
    kind, p = sel
    return kind == 'scalar' or (0 < len(p) and (len(p) < n or p != list(range(n))))


# ------------------------------------------------------------------ cases
SERIES_KINDS = ('str', 'int', 'obj', 'auto', 'date', 'date_unsorted', 'ih', 'auto_step2', 'auto_rev')


def scope(tier):
    return dict(n_series=(0, 1, 2, 3) if tier == 'quick' else (0, 1, 2, 3, 4), frame_shapes=((2, 3), (3, 2), (1, 3)) if tier == 'quick' else ((2, 3), (3, 2), (1, 3), (3, 3), (1, 4)))


def cases(tier):
    sc = scope(tier)
    for kind in SERIES_KINDS:
        for n in sc['n_series']:
            if kind in ('date', 'date_unsorted', 'ih') and n == 0:
                continue
            for route in ('iloc', 'loc', 'getitem'):
                yield ('series', kind, n, route)
    for (nr, nc) in sc['frame_shapes']:
        for rk, ck in (('str', 'str'), ('auto', 'auto'), ('int', 'obj'), ('date', 'str'), ('date_unsorted', 'str'), ('str', 'date_unsorted'), ('ih', 'str'), ('str', 'ih')):
            for li in layout_specs(nc, tier):
                yield ('frame1', rk, ck, nr, nc, li)
                for sh in range(4):
                    yield ('frame2', rk, ck, nr, nc, li, (sh, 4))
            yield ('bloc', rk, ck, nr, nc, tier)


def universe(tier):
    sc = scope(tier)
    return {'series_index_kinds': SERIES_KINDS, 'series_lengths': list(sc['n_series']), 'frame_shapes': [list(s) for s in sc['frame_shapes']],
            'positional_keys_n3': len(pos_keys(3)), 'label_keys_str_n3': len(label_keys('str', make_axis('str', 3)[1]))}


# ------------------------------------------------------------------ series
def run_series(case, ctx):
    _, kind, n, route = case
    ix, ref = make_axis(kind, n)
    vals = [100 + i for i in range(n)]
    if kind in ('auto_step2', 'auto_rev'):
        # a Series selected from an auto-indexed one, then selected again: the second selection is what is checked
        m, k0 = derive(kind, n)
        src = sf.Series(U.frozen(np.arange(m, dtype=np.int64) * 0 + 100), name='nm')
        src = sf.Series(U.frozen(np.array([100 + (p // 2 if kind == 'auto_step2' else n - 1 - p) for p in range(m)], dtype=np.int64)), name='nm')
        s = src.iloc[k0]
    else:
        s = sf.Series(U.frozen(np.array(vals, dtype=np.int64)), index=ix, name='nm')
    keys = pos_keys(n) if route == 'iloc' else label_keys(kind, ref)
    for kname, key in keys:
        ctx.transition()
        ctx.state(('S', kind, n, route, kname, key_repr(key)))
        info = dict(index_kind=kind, n=n, route=route, key=key_repr(key), key_kind=kname)
        fresh = key if isinstance(key, FreshGO) else None
        if fresh is not None:
            key = fresh.static()
        try:
            sel = check_unique(ref.iloc(key) if route == 'iloc' else ref.loc(key), ref.labels if kind == 'ih' else None)
            exp_err = None
        except RefLookupError:
            sel, exp_err = None, 'lookup'
        except RefDuplicate:
            sel, exp_err = None, 'duplicate'
        if fresh is not None:
            key = fresh.make()
        try:
            got = s.iloc[key] if route == 'iloc' else (s.loc[key] if route == 'loc' else s[key])
            got_err = None
        except Exception as e:
            got, got_err = None, type(e).__name__
        ctx.outcome(f'series:{route}:{"err" if got_err else "ok"}')
        if exp_err:
            if got_err is None:
                desc = repr(got.to_pairs()) if isinstance(got, sf.Series) else repr(got)
                ctx.violation(f'series.{route}|index={kind}|{kname}{auto_class(kind, key)}|returns-data-for-{exp_err}', **info, got=desc)
            continue
        if nontrivial_sel(sel, n):
            ctx.nontriv(('S', kind, n, route, key_repr(key)))
        if got_err:
            ctx.violation(f'series.{route}|index={kind}|{kname}|raises-{got_err}', **info, expected=sel)
            continue
        if sel[0] == 'scalar':
            if isinstance(got, sf.Series) or not eqv(got, vals[sel[1]]):
                ctx.violation(f'series.{route}|index={kind}|{kname}|element', **info, got=repr(got), expected=vals[sel[1]])
            continue
        if not isinstance(got, sf.Series):
            ctx.violation(f'series.{route}|index={kind}|{kname}|not-a-series', **info, got=repr(got), expected=sel)
            continue
        gl = [lk(x) for x in (got.index.values.tolist() if got.index.depth == 1 else list(got.index))]
        el = [lk(ref.labels[p]) for p in sel[1]]
        gv = got.values.tolist()
        if gl != el or gv != [vals[p] for p in sel[1]]:
            ctx.violation(f'series.{route}|index={kind}|{kname}|labels-or-values', **info, got=(gl, gv), expected=(el, [vals[p] for p in sel[1]]))
        elif got.name != 'nm':
            ctx.violation(f'series.{route}|name-lost', **info, got=got.name)
    ctx.sample({'family': 'series', 'index_kind': kind, 'n': n, 'route': route, 'keys': len(keys)}, limit=1)


class FreshGO:
    '''a grow-only Index used as a key straight after it grew (no read in between): built anew for every selection; the reference sees the static equal'''

    def __init__(self, labels):
        self.labels = list(labels)

    def make(self):
        k = sf.IndexGO(self.labels[:1])
        for x in self.labels[1:]:
            k.append(x)
        return k

    def static(self):
        return sf.Index(self.labels)

    def __repr__(self):
        return f'IndexGO(grown){self.labels!r}'


# ------------------------------------------------------------------ frames
PATTERNS = {'ifs': 'ifs', 'iis': 'iis', 'iff': 'iff', 'iii': 'iii', 'sii': 'sii'}


def layout_specs(nc, tier):
    '''quick: four hand-picked layouts; thorough: additionally every block layout of five dtype patterns'''
    out = [li for li in range(4) if not (li == 3 and nc < 3)]
    if tier != 'quick':
        for pat in PATTERNS:
            kinds = (pat * 2)[:nc]
            protos = [np.empty(1, dtype={'i': np.int64, 'f': np.float64, 's': '<U3'}[k]) for k in kinds]
            for k in range(sum(1 for _ in U.layouts(protos))):
                out.append(('full', pat, k))
    return out


def make_frame(rk, ck, nr, nc, li):
    rix, rref = make_axis(rk, nr)
    cix, cref = make_axis(ck, nc)
    cols = []
    grid = []
    if isinstance(li, tuple):
        _, pat, k = li
        for j, kind in enumerate((pat * 2)[:nc]):
            if kind == 'i':
                v = [10 * i + j for i in range(nr)]
                a = np.array(v, dtype=np.int64)
            elif kind == 'f':
                v = [10 * i + j + 0.5 for i in range(nr)]
                a = np.array(v, dtype=np.float64)
            else:
                v = ['s%d%d' % (i, j) for i in range(nr)]
                a = np.array(v, dtype='<U3')
            cols.append(U.frozen(a))
            grid.append(v)
        sig, blocks = list(U.layouts(cols))[k]
        f = U.frame_from_blocks(blocks, nr, index=rix, columns=cix, name='fn')
        return f, rref, cref, grid, (pat,) + tuple(sig)
    for j in range(nc):
        if j % 3 == 0:
            v = [10 * i + j for i in range(nr)]
            a = np.array(v, dtype=np.int64)
        elif j % 3 == 1:
            v = [10 * i + j + 0.5 for i in range(nr)]
            a = np.array(v, dtype=np.float64)
        else:
            v = ['s%d%d' % (i, j) for i in range(nr)]
            a = np.array(v, dtype='<U3')
        if nc >= 3 and j == 1 and li == 1:
            pass
        cols.append(U.frozen(a))
        grid.append(v)
    if li == 1 and nc >= 2:
        # make columns 0 and 1 share a dtype so that a 2-D block exists
        v = [10 * i + 1 for i in range(nr)]
        cols[1] = U.frozen(np.array(v, dtype=np.int64))
        grid[1] = v
    if li == 3 and nc >= 3:
        # columns 1 and 2 share a dtype: a multi-column 2-D block that is not the first block
        v = [10 * i + 2 + 0.5 for i in range(nr)]
        cols[2] = U.frozen(np.array(v, dtype=np.float64))
        grid[2] = v
    lays = list(U.layouts(cols))
    if li == 0:
        sig, blocks = lays[0]
    elif li in (1, 3):
        sig, blocks = lays[-1]
    else:
        blocks = [U.frozen(c.reshape(nr, 1)) for c in cols]
        sig = ('all2x1',)
    f = U.frame_from_blocks(blocks, nr, index=rix, columns=cix, name='fn')
    return f, rref, cref, grid, sig


def check_frame_sel(ctx, tag, got, got_err, rsel, csel, rref, cref, grid, info):
    if got_err:
        ctx.violation(f'{tag}|raises-{got_err}', **info, expected=(rsel, csel))
        return
    rl = lambda p: lk(rref.labels[p])
    cl = lambda p: lk(cref.labels[p])
    if rsel[0] == 'scalar' and csel[0] == 'scalar':
        if isinstance(got, (sf.Series, sf.Frame)) or not eqv(got, grid[csel[1]][rsel[1]]):
            ctx.violation(f'{tag}|element', **info, got=repr(got), expected=grid[csel[1]][rsel[1]])
        return
    if rsel[0] == 'scalar' or csel[0] == 'scalar':
        if not isinstance(got, sf.Series):
            ctx.violation(f'{tag}|not-a-series', **info, got=type(got).__name__)
            return
        gl = [lk(x) for x in (got.index.values.tolist() if got.index.depth == 1 else list(got.index))]
        gv = list(got.values)
        if rsel[0] == 'scalar':
            el = [cl(p) for p in csel[1]]
            ev = [grid[p][rsel[1]] for p in csel[1]]
            en = rl(rsel[1])
        else:
            el = [rl(p) for p in rsel[1]]
            ev = [grid[csel[1]][p] for p in rsel[1]]
            en = cl(csel[1])
        if gl != el or len(gv) != len(ev) or not all(eqv(g, e) for g, e in zip(gv, ev)):
            ctx.violation(f'{tag}|series-labels-or-values', **info, got=(gl, [norm(x) for x in gv]), expected=(el, [norm(x) for x in ev]))
        elif lk(got.name) != en:
            ctx.violation(f'{tag}|series-name', **info, got=got.name, expected=en)
        return
    if not isinstance(got, sf.Frame):
        ctx.violation(f'{tag}|not-a-frame', **info, got=type(got).__name__)
        return
    grl = [lk(x) for x in (got.index.values.tolist() if got.index.depth == 1 else list(got.index))]
    gcl = [lk(x) for x in (got.columns.values.tolist() if got.columns.depth == 1 else list(got.columns))]
    if grl != [rl(p) for p in rsel[1]] or gcl != [cl(p) for p in csel[1]]:
        ctx.violation(f'{tag}|frame-labels', **info, got=(grl, gcl), expected=([rl(p) for p in rsel[1]], [cl(p) for p in csel[1]]))
        return
    gcols = columns_of(got)
    for jj, cp in enumerate(csel[1]):
        ev = [grid[cp][p] for p in rsel[1]]
        if len(gcols[jj]) != len(ev) or not all(eqv(g, e) for g, e in zip(gcols[jj], ev)):
            ctx.violation(f'{tag}|frame-values', **info, column=jj, got=[norm(x) for x in gcols[jj]], expected=[norm(x) for x in ev])
            return
    if got.name != 'fn':
        ctx.violation(f'{tag}|frame-name-lost', **info, got=got.name)


def _real(k):
    return k.make() if isinstance(k, FreshGO) else k


def _stat(k):
    return k.static() if isinstance(k, FreshGO) else k


def resolve(ref, key, positional):
    try:
        tree = ref.labels if (ref.labels and isinstance(ref.labels[0], tuple) and ref.kind != 'obj') else None
        return check_unique(ref.iloc(key) if positional else ref.loc(key), tree), None
    except RefLookupError:
        return None, 'lookup'
    except RefDuplicate:
        return None, 'duplicate'


def run_frame1(case, ctx):
    '''one axis addressed with the full key universe, the other left whole (or both via a null slice).'''
    _, rk, ck, nr, nc, li = case
    f, rref, cref, grid, sig = make_frame(rk, ck, nr, nc, li)
    allr, allc = ('multi', list(range(nr))), ('multi', list(range(nc)))
    plans = []
    for kname, k in pos_keys(nr):
        plans.append(('iloc[r]', kname, k, lambda k=k: f.iloc[k], lambda k=k: (resolve(rref, k, True), (allc, None))))
    for kname, k in pos_keys(nc):
        plans.append(('iloc[:,c]', kname, k, lambda k=k: f.iloc[:, k], lambda k=k: ((allr, None), resolve(cref, k, True))))
    for kname, k in label_keys(rk, rref):
        if isinstance(k, tuple):
            continue  # Frame.loc[(a, b)] is read as (row key, column key); a bare tuple label is only usable inside a list / HLoc
        plans.append(('loc[r]', kname, k, lambda k=k: f.loc[_real(k)], lambda k=k: (resolve(rref, _stat(k), False), (allc, None))))
    for kname, k in label_keys(ck, cref):
        plans.append(('loc[:,c]', kname, k, lambda k=k: f.loc[:, _real(k)], lambda k=k: ((allr, None), resolve(cref, _stat(k), False))))
        plans.append(('getitem[c]', kname, k, lambda k=k: f[_real(k)], lambda k=k: ((allr, None), resolve(cref, _stat(k), False))))
    for route, kname, key, call, refcall in plans:
        ctx.transition()
        ctx.state(('F1', rk, ck, nr, nc, sig, route, key_repr(key)))
        info = dict(rows=rk, cols=ck, shape=(nr, nc), layout=sig, route=route, key=key_repr(key), key_kind=kname)
        (rsel, rerr), (csel, cerr) = refcall()
        try:
            got, got_err = call(), None
        except Exception as e:
            got, got_err = None, type(e).__name__
        kind = rk if 'r]' in route else ck
        tag = f'frame.{route}|index={kind}|{kname}'
        if rerr or cerr:
            if got_err is None:
                ctx.violation(f'{tag}{auto_class(kind, key)}|returns-data-for-{rerr or cerr}', **info, got=repr(got.shape) if hasattr(got, 'shape') else repr(got))
            continue
        if nontrivial_sel(rsel, nr) or nontrivial_sel(csel, nc):
            ctx.nontriv(('F1', rk, ck, nr, nc, route, key_repr(key)))
        check_frame_sel(ctx, tag, got, got_err, rsel, csel, rref, cref, grid, info)
    ctx.outcome('frame1')
    ctx.sample({'family': 'frame1', 'rows': rk, 'cols': ck, 'shape': (nr, nc), 'layout': sig, 'selections': len(plans)}, limit=1)


def reduced_pos(n):
    ks = [('int', k) for k in (0, n - 1, -1, n)] + [('slice', s) for s in (slice(None), slice(1, None), slice(None, None, -1), slice(0, n, 2), slice(n, None), slice(-1, 0, -1))]
    ks += [('list', l) for l in ([], [0], [n - 1, 0], [0, 0])] + [('mask', m) for m in U.mask_keys(n)[1:: max(1, 2 ** n // 4)]]
    return ks


def reduced_lab(kind, ref):
    labels = ref.labels
    ab = absent_labels(kind)[0]
    one = (lambda l: [l]) if kind in ('ih', 'obj') else (lambda l: l)   # bare tuples inside Frame.loc[r, c] would be ambiguous
    ks = [('label', one(labels[0])), ('label', one(labels[-1])), ('absent-label', one(ab)), ('label-list', [labels[-1], labels[0]]), ('label-list', [labels[0]]),
          ('label-slice', slice(labels[0], labels[-1])), ('label-slice', slice(labels[-1], None)), ('label-slice', slice(None)),
          ('label-list-with-absent', [labels[0], ab]), ('mask', U.mask_keys(len(labels))[-2]), ('ILoc-int', sf.ILoc[-1]), ('ILoc-slice', sf.ILoc[::-1])]
    return ks


def run_frame2(case, ctx):
    _, rk, ck, nr, nc, li, (sh, nsh) = case
    f, rref, cref, grid, sig = make_frame(rk, ck, nr, nc, li)
    combos = []
    for (rn, r), (cn, c) in itertools.product(reduced_pos(nr), reduced_pos(nc)):
        combos.append(('iloc[r,c]', rn, cn, r, c, True))
    for (rn, r), (cn, c) in itertools.product(reduced_lab(rk, rref), reduced_lab(ck, cref)):
        combos.append(('loc[r,c]', rn, cn, r, c, False))
    for vi, (route, rn, cn, r, c, positional) in enumerate(combos):
        if vi % nsh != sh:
            continue
        ctx.transition()
        ctx.state(('F2', rk, ck, nr, nc, sig, route, key_repr(r), key_repr(c)))
        info = dict(rows=rk, cols=ck, shape=(nr, nc), layout=sig, route=route, row_key=key_repr(r), col_key=key_repr(c))
        rsel, rerr = resolve(rref, r, positional)
        csel, cerr = resolve(cref, c, positional)
        try:
            got, got_err = (f.iloc[r, c] if positional else f.loc[r, c]), None
        except Exception as e:
            got, got_err = None, type(e).__name__
        tag = f'frame.{route}|index={rk}x{ck}|{rn}x{cn}'
        if rerr or cerr:
            if got_err is None:
                ac = sorted({auto_class(rk, r) if rerr else '', auto_class(ck, c) if cerr else ''} - {''})
                if ac:
                    tag = f'frame.{route}|index=auto|two-axis{"".join(ac)}'   # one finding whatever the other axis' key was
                ctx.violation(f'{tag}|returns-data-for-{rerr or cerr}', **info, got=repr(got.shape) if hasattr(got, 'shape') else repr(got))
            continue
        if nontrivial_sel(rsel, nr) or nontrivial_sel(csel, nc):
            ctx.nontriv(('F2', rk, ck, nr, nc, route, key_repr(r), key_repr(c)))
        check_frame_sel(ctx, tag, got, got_err, rsel, csel, rref, cref, grid, info)
    ctx.outcome('frame2')
    ctx.sample({'family': 'frame2', 'rows': rk, 'cols': ck, 'shape': (nr, nc), 'layout': sig, 'combinations': len(combos)}, limit=1)


def run_bloc(case, ctx):
    _, rk, ck, nr, nc, tier = case
    for li in layout_specs(nc, tier):
        f, rref, cref, grid, sig = make_frame(rk, ck, nr, nc, li)
        for bits in itertools.product((False, True), repeat=nr * nc):
            ctx.transition()
            ctx.state(('bloc', rk, ck, nr, nc, sig, bits))
            if any(bits) and not all(bits):
                ctx.nontriv(('bloc', rk, ck, nr, nc, bits))
            m = np.array(bits, dtype=bool).reshape(nr, nc)
            # Boolean Frame key with permuted labels on both axes: alignment is by label
            rp, cp = list(range(nr))[::-1], list(range(nc))[::-1]
            keyf = f.iloc[rp, cp].astype(bool).assign.iloc[:, :](m[np.ix_(rp, cp)]) if nr and nc else None
            info = dict(rows=rk, cols=ck, shape=(nr, nc), layout=sig, mask=bits)
            for form, key in (('array', m), ('frame-permuted', keyf)):
                if key is None:
                    continue
                try:
                    got = f.bloc[key]
                except Exception as e:
                    ctx.violation(f'frame.bloc|{form}|raises-{type(e).__name__}', **info, error=repr(e))
                    continue
                exp = {(lk(rref.labels[i]), lk(cref.labels[j])): grid[j][i] for i in range(nr) for j in range(nc) if m[i, j]}
                gotd = {}
                for lab, v in zip(list(got.index), list(got.values)):
                    gotd[(lk(lab[0]), lk(lab[1]))] = v
                if len(got) != len(exp) or set(gotd) != set(exp) or not all(eqv(gotd[k], exp[k]) for k in exp):
                    ctx.violation(f'frame.bloc|{form}|cells', **info, got=sorted(map(repr, gotd.items())), expected=sorted(map(repr, exp.items())))
    ctx.outcome('bloc')
    ctx.sample({'family': 'bloc', 'rows': rk, 'cols': ck, 'shape': (nr, nc)}, limit=1)


def run_case(case, ctx):
    {'series': run_series, 'frame1': run_frame1, 'frame2': run_frame2, 'bloc': run_bloc}[case[0]](case, ctx)
