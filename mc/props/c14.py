"""C14 Missing-value operations act per cell exactly as specified.

Mode P.  case = (column-kind sequence, nrows, block layout); inside a case every
pattern of missing cells over the missing-capable cells is enumerated and every
NA operation is compared, cell by cell, with a pure-Python reference written from
the statement.  Series forms are driven from 1-column cases.
"""
import itertools

import numpy as np

import static_frame as sf
from mc import universe as U
from mc.observe import columns_of, is_missing, norm

PROPERTY_ID = 'C14'
MODE = 'P (product enumeration: kinds x rows x layouts x all missing masks x operations)'
RULE = ('case = (column kinds, nrows, layout); per case all 2^(capable cells) missing patterns x all NA operations '
        '(isna notna count dropna any/all both axes, fillna element/partial container, forward/backward with limit 0..n both axes, '
        'leading/trailing both axes) are executed on the real Frame/Series and compared cell-wise with the reference; '
        'non-trivial = (kinds, nrows, mask, op) with at least one missing and one non-missing cell, counted once over layouts; '
        'states = distinct (kinds, nrows, layout, mask) frames; transitions = operations compared')
ASSUMPTIONS = [
    'cells compare by Python == within a type family (str vs non-str never equal); int/float/bool numeric equality is accepted (exact typing is C07)',
    'limit=0 means unlimited (documented)',
    'labels are fixed small str labels; label handling by these operations beyond carry-over is covered by C04/C08',
]

CAPABLE = {'float': np.nan, 'obj': None, 'date': np.datetime64('NaT'), 'objnan': np.nan}
BASE = {
    'float': lambda i, j: 1.5 + i + 10 * j,
    'obj': lambda i, j: ['o', 3, 2.5][(i + j) % 3],
    'objnan': lambda i, j: ['p', 4][(i + j) % 2],
    'date': lambda i, j: np.datetime64('2020-01-01') + np.timedelta64(i + 3 * j, 'D'),
    'int': lambda i, j: 7 + i + 10 * j,
    'str': lambda i, j: 's%d%d' % (i, j),
    'bool': lambda i, j: (i + j) % 2 == 0,
}
DTYPE = {'float': 'float64', 'obj': 'object', 'objnan': 'object', 'date': 'datetime64[D]', 'int': 'int64', 'str': '<U3', 'bool': 'bool'}


def scope(tier):
    if tier == 'quick':
        return dict(kinds=('float', 'obj', 'date', 'int', 'str'), maxcols=3, rows=(1, 2, 3), maxcells=6, series_len=4)
    return dict(kinds=('float', 'obj', 'date', 'objnan', 'int', 'str', 'bool'), maxcols=3, rows=(1, 2, 3, 4), maxcells=9, series_len=5)


def cases(tier):
    sc = scope(tier)
    for m in range(1, sc['maxcols'] + 1):
        for kinds in itertools.product(sc['kinds'], repeat=m):
            ncap = sum(1 for k in kinds if k in CAPABLE)
            if ncap == 0:
                continue
            for nrows in sc['rows']:
                if ncap * nrows > sc['maxcells']:
                    continue
                protos = [np.empty(nrows, dtype=DTYPE[k]) for k in kinds]
                nl = sum(1 for _ in U.layouts(protos))
                for li in range(nl):
                    yield ('F', kinds, nrows, li)
    for k in CAPABLE:
        if k in sc['kinds']:
            for n in range(0, sc['series_len'] + 1):
                yield ('S', (k,), n, 0)
    # wide single-row frames: directional fills along axis 1 must carry value and run length across several block boundaries
    for m in ((4, 5) if tier == 'quick' else (4, 5, 6)):
        for kinds in itertools.product(('float', 'int'), repeat=m):
            if sum(1 for k in kinds if k == 'float') < 2:
                continue
            yield ('W', kinds, 1, 0)
    for kinds in (('f32',), ('f16',), ('dateD',), ('dateM',), ('f32', 'dateD'), ('f32', 'f32'), ('dateM', 'dateD')):
        for nrows in (1, 2, 3):
            yield ('N', kinds, nrows, 0)
    if tier == 'quick':
        # six columns are the least that show a run-length carried over the wrong end of a 2-D block (limit 2, block [nan, v, nan, nan, w] after a 1-D block)
        yield ('W', ('float',) * 6, 1, 0)


def universe(tier):
    sc = scope(tier)
    return {k: (list(v) if isinstance(v, tuple) else v) for k, v in sc.items()}


def same(a, b):
    ma, mb = is_missing(a), is_missing(b)
    if ma or mb:
        return ma and mb
    if isinstance(a, (str, np.str_)) != isinstance(b, (str, np.str_)):
        return False
    if isinstance(a, np.datetime64) or isinstance(b, np.datetime64):
        try:
            return bool(np.datetime64(a) == np.datetime64(b))
        except Exception:
            return False
    try:
        return bool(a == b)
    except Exception:
        return False


def make_cols(kinds, nrows, mask_bits):
    '''grid[j][i] python values (column major) and arrays.'''
    grid = []
    arrays = []
    bit = 0
    for j, k in enumerate(kinds):
        colv = []
        for i in range(nrows):
            v = BASE[k](i, j)
            if k in CAPABLE:
                if mask_bits[bit]:
                    v = CAPABLE[k]
                bit += 1
            colv.append(v)
        a = np.empty(nrows, dtype=DTYPE[k])
        for i, v in enumerate(colv):
            a[i] = v
        a.flags.writeable = False
        grid.append(colv)
        arrays.append(a)
    return grid, arrays


# ----- reference --------------------------------------------------------------
def r_ffill(seq, limit):
    out = list(seq)
    have = False
    last = None
    run = 0
    for i, v in enumerate(seq):
        if is_missing(v):
            run += 1
            if have and (limit == 0 or run <= limit):
                out[i] = last
        else:
            have, last, run = True, v, 0
    return out


def r_bfill(seq, limit):
    return r_ffill(seq[::-1], limit)[::-1]


def r_leading(seq, value):
    out = list(seq)
    for i, v in enumerate(seq):
        if is_missing(v):
            out[i] = value
        else:
            break
    return out


def r_trailing(seq, value):
    return r_leading(seq[::-1], value)[::-1]


def by_axis(grid, nrows, axis, func):
    '''grid column-major; apply func along axis 0 (down each column) or 1 (across each row).'''
    ncols = len(grid)
    if axis == 0:
        return [func(list(c)) for c in grid]
    rows = [func([grid[j][i] for j in range(ncols)]) for i in range(nrows)]
    return [[rows[i][j] for i in range(nrows)] for j in range(ncols)]


def frame_cells(f):
    return [list(a) for a in columns_of(f)]


def check_frame(ctx, tag, res, exp_grid, exp_index, exp_columns, info):
    if not isinstance(res, sf.Frame):
        ctx.violation(f'{tag}|result-not-frame', **info, got=type(res).__name__)
        return
    if list(res.index.values) != list(exp_index) or list(res.columns.values) != list(exp_columns):
        ctx.violation(f'{tag}|labels', **info, got_index=list(res.index.values), got_columns=list(res.columns.values),
                      exp_index=list(exp_index), exp_columns=list(exp_columns))
        return
    got = frame_cells(res)
    for j, (gc, ec) in enumerate(zip(got, exp_grid)):
        if len(gc) != len(ec) or not all(same(g, e) for g, e in zip(gc, ec)):
            ctx.violation(f'{tag}|cells', **info, column=j, got=[norm(x) for x in gc], expected=[norm(x) for x in ec])
            return


def run_frame(case, ctx):
    _, kinds, nrows, li = case
    ncols = len(kinds)
    ncap = sum(1 for k in kinds if k in CAPABLE) * nrows
    index = ['r%d' % i for i in range(nrows)]
    columns = ['c%d' % j for j in range(ncols)]
    fill_elem = -1
    for bits in itertools.product((0, 1), repeat=ncap):
        grid, arrays = make_cols(kinds, nrows, bits)
        sig, blocks = list(U.layouts(arrays))[li]
        f = U.frame_from_blocks(blocks, nrows, index=index, columns=columns)
        ctx.state((kinds, nrows, sig, bits))
        info = dict(kinds=kinds, nrows=nrows, layout=sig, mask=bits)
        miss = [[is_missing(v) for v in c] for c in grid]
        nontrivial = 0 < sum(bits) < ncols * nrows

        def op(name, func, exp_grid=None, exp_index=index, exp_columns=columns, check=None):
            ctx.transition()
            if nontrivial:
                ctx.nontriv((kinds, nrows, bits, name))
            try:
                res = func()
            except Exception as e:
                ctx.violation(f'frame.{name}|raises|{type(e).__name__}', **info, error=repr(e))
                return
            if check is not None:
                check(res)
            else:
                check_frame(ctx, f'frame.{name}', res, exp_grid, exp_index, exp_columns, info)

        op('isna', f.isna, miss)
        op('notna', f.notna, [[not x for x in c] for c in miss])
        for axis in (0, 1):
            for skipna in (True, False):
                if axis == 0:
                    exp = [sum(1 for x in c if not x) if skipna else nrows for c in miss]
                    lab = columns
                else:
                    exp = [sum(1 for j in range(ncols) if not miss[j][i]) if skipna else ncols for i in range(nrows)]
                    lab = index

                def chk(res, exp=exp, lab=lab, axis=axis, skipna=skipna):
                    if not isinstance(res, sf.Series) or list(res.index.values) != lab or [int(x) for x in res.values] != exp:
                        ctx.violation(f'frame.count|axis={axis}|skipna={skipna}', **info, got=repr(res.values.tolist()) if hasattr(res, 'values') else repr(res), expected=exp)
                op(f'count{axis}{int(skipna)}', lambda axis=axis, skipna=skipna: f.count(axis=axis, skipna=skipna), check=chk)
        for axis in (0, 1):
            for cname, cond, pyc in (('all', np.all, all), ('any', np.any, any)):
                if axis == 0:
                    keep = [i for i in range(nrows) if not pyc(miss[j][i] for j in range(ncols))]
                    eg = [[grid[j][i] for i in keep] for j in range(ncols)]
                    ei, ec = [index[i] for i in keep], columns
                else:
                    keepc = [j for j in range(ncols) if not pyc(miss[j])]
                    eg = [grid[j] for j in keepc]
                    ei, ec = index, [columns[j] for j in keepc]
                op(f'dropna{axis}{cname}', lambda axis=axis, cond=cond: f.dropna(axis=axis, condition=cond), eg, ei, ec)
        op('fillna_elem', lambda: f.fillna(fill_elem), [[fill_elem if m else v for v, m in zip(c, mc)] for c, mc in zip(grid, miss)])
        # partially covering, reordered, label-aligned container: covers rows r0 (and an absent row) and the last and first columns
        cov_rows = ['zz', 'r0'] if nrows > 1 else ['r0']
        cov_cols = [columns[-1], 'yy'] + ([columns[0]] if ncols > 1 else [])
        filler = sf.Frame.from_records([[100 + 10 * a + b for b in range(len(cov_cols))] for a in range(len(cov_rows))], index=cov_rows, columns=cov_cols)
        eg = []
        for j in range(ncols):
            colv = []
            for i in range(nrows):
                v = grid[j][i]
                if miss[j][i] and index[i] in cov_rows and columns[j] in cov_cols:
                    v = 100 + 10 * cov_rows.index(index[i]) + cov_cols.index(columns[j])
                colv.append(v)
            eg.append(colv)
        op('fillna_frame', lambda: f.fillna(filler), eg)
        # the same cells under descending labels on both axes; the filler covers every label, in another order, plus foreign ones
        index2, columns2 = index[::-1], columns[::-1]
        f2 = f.relabel(index=index2, columns=columns2)
        fv = lambda r, c: 300 + 10 * int(r[1:]) + int(c[1:])
        fr_, fc_ = sorted(index, key=lambda l: (int(l[1:]) * 7) % 5) + ['zz'], ['yy'] + sorted(columns, key=lambda l: (int(l[1:]) * 3) % 4)
        filler2 = sf.Frame.from_records([[fv(r, c) if r != 'zz' and c != 'yy' else 999 for c in fc_] for r in fr_], index=fr_, columns=fc_)
        # a filler with EXACTLY the target's labels (same shape), in another order on one or both axes
        for oname, ri, ci in (('rows-reversed', index2[::-1][::-1][::-1], columns2), ('columns-rotated', index2, columns2[1:] + columns2[:1]), ('both', index2[::-1], columns2[::-1])):
            if (oname == 'rows-reversed' and nrows < 2) or (oname == 'columns-rotated' and ncols < 2) or (oname == 'both' and (nrows < 2 and ncols < 2)):
                continue
            ri_ = index2[::-1] if oname in ('rows-reversed', 'both') else index2
            ci_ = (columns2[1:] + columns2[:1]) if oname in ('columns-rotated', 'both') else columns2
            filler3 = sf.Frame.from_records([[fv(r, c) for c in ci_] for r in ri_], index=ri_, columns=ci_)
            op(f'fillna_frame_same-labels-{oname}', lambda filler3=filler3: f2.fillna(filler3),
               [[fv(index2[i], columns2[j]) if miss[j][i] else grid[j][i] for i in range(nrows)] for j in range(ncols)], index2, columns2)
        op('fillna_frame_descending_labels', lambda: f2.fillna(filler2),
           [[fv(index2[i], columns2[j]) if miss[j][i] else grid[j][i] for i in range(nrows)] for j in range(ncols)], index2, columns2)
        for axis in (0, 1):
            n_along = nrows if axis == 0 else ncols
            for limit in range(0, n_along + 1):
                op(f'ffill{axis}l{limit}', lambda axis=axis, limit=limit: f.fillna_forward(limit, axis=axis),
                   by_axis(grid, nrows, axis, lambda s, limit=limit: r_ffill(s, limit)))
                op(f'bfill{axis}l{limit}', lambda axis=axis, limit=limit: f.fillna_backward(limit, axis=axis),
                   by_axis(grid, nrows, axis, lambda s, limit=limit: r_bfill(s, limit)))
            op(f'leading{axis}', lambda axis=axis: f.fillna_leading(fill_elem, axis=axis),
               by_axis(grid, nrows, axis, lambda s: r_leading(s, fill_elem)))
            op(f'trailing{axis}', lambda axis=axis: f.fillna_trailing(fill_elem, axis=axis),
               by_axis(grid, nrows, axis, lambda s: r_trailing(s, fill_elem)))
        # the operand itself is unchanged
        if not all(all(same(g, e) for g, e in zip(gc, ec)) for gc, ec in zip(frame_cells(f), grid)):
            ctx.violation('frame|operand-changed', **info)
        ctx.outcome(f'F:ncap={ncap}:missing={sum(bits)}')
    ctx.sample({'kinds': kinds, 'nrows': nrows, 'layout': sig, 'masks': 2 ** ncap, 'example_mask': bits}, limit=1)


def check_series(ctx, tag, res, exp_vals, exp_index, info):
    if not isinstance(res, sf.Series):
        ctx.violation(f'{tag}|result-not-series', **info, got=type(res).__name__)
        return
    if list(res.index.values) != list(exp_index):
        ctx.violation(f'{tag}|labels', **info, got=list(res.index.values), expected=list(exp_index))
        return
    got = list(res.values)
    if len(got) != len(exp_vals) or not all(same(g, e) for g, e in zip(got, exp_vals)):
        ctx.violation(f'{tag}|cells', **info, got=[norm(x) for x in got], expected=[norm(x) for x in exp_vals])


NARROW = {
    # kind: (dtype, base value(i, j), missing, fill value that needs a wider / finer dtype of the same kind)
    'f32': ('float32', lambda i, j: 1.5 + i + 10 * j, np.nan, 0.1),
    'f16': ('float16', lambda i, j: 0.5 + i + 4 * j, np.nan, 0.1),
    'dateD': ('datetime64[D]', lambda i, j: np.datetime64('2020-01-01') + np.timedelta64(i + 3 * j, 'D'), np.datetime64('NaT'), np.datetime64('2019-03-04T05:06:07')),
    'dateM': ('datetime64[M]', lambda i, j: np.datetime64('2020-01') + np.timedelta64(i + 3 * j, 'M'), np.datetime64('NaT'), np.datetime64('2019-03-04')),
}


def run_narrow(case, ctx):
    '''columns of a narrow / coarse dtype filled with a value that needs a wider / finer dtype of the same kind: every filled cell holds exactly the value supplied'''
    _, kinds, nrows, _ = case
    ncols = len(kinds)
    index = ['r%d' % i for i in range(nrows)]
    columns = ['c%d' % j for j in range(ncols)]
    same_kind = len({NARROW[k][0][:4] for k in kinds}) == 1
    for bits in itertools.product((0, 1), repeat=ncols * nrows):
        grid, arrays = [], []
        for j, k in enumerate(kinds):
            dt, base, missing, _ = NARROW[k]
            colv = [missing if bits[j * nrows + i] else base(i, j) for i in range(nrows)]
            a = np.array(colv, dtype=dt)
            a.flags.writeable = False
            grid.append([a[i] for i in range(nrows)])
            arrays.append(a)
        miss = [[bool(b) for b in bits[j * nrows:(j + 1) * nrows]] for j in range(ncols)]
        for sig, blocks in U.layouts(arrays):
            f = U.frame_from_blocks(blocks, nrows, index=index, columns=columns)
            ctx.state(('N', kinds, nrows, sig, bits))
            info = dict(kinds=kinds, nrows=nrows, layout=sig, mask=bits)
            fills = [NARROW[kinds[0]][3]] if same_kind else [NARROW[k][3] for k in kinds[:1]]
            for fill in fills:
                def exp_for(fn):
                    return by_axis(grid, nrows, 0, fn)
                ops = [('fillna', lambda: f.fillna(fill), [[fill if m else v for v, m in zip(c, mc)] for c, mc in zip(grid, miss)]),
                       ('leading0', lambda: f.fillna_leading(fill, axis=0), by_axis(grid, nrows, 0, lambda s_: r_leading(s_, fill))),
                       ('trailing0', lambda: f.fillna_trailing(fill, axis=0), by_axis(grid, nrows, 0, lambda s_: r_trailing(s_, fill)))]
                if same_kind:
                    ops += [('leading1', lambda: f.fillna_leading(fill, axis=1), by_axis(grid, nrows, 1, lambda s_: r_leading(s_, fill))),
                            ('trailing1', lambda: f.fillna_trailing(fill, axis=1), by_axis(grid, nrows, 1, lambda s_: r_trailing(s_, fill)))]
                for name, fn, exp in ops:
                    ctx.transition()
                    if 0 < sum(bits) < len(bits):
                        ctx.nontriv(('N', kinds, nrows, bits, name))
                    try:
                        res = fn()
                    except Exception as e:
                        ctx.violation(f'narrow.{name}|raises|{type(e).__name__}', **info, error=repr(e))
                        continue
                    # cells of a kind the fill value does not belong to (a date fill in a float column) are outside the comparison of exactness
                    check_frame(ctx, f'narrow.{name}|fill-kind={type(fill).__name__}', res, exp, index, columns, info)
            if ncols == 1:
                s1 = sf.Series(arrays[0], index=index)
                fill = NARROW[kinds[0]][3]
                for name, fn, exp in (('series.fillna', lambda: s1.fillna(fill), [fill if m else v for v, m in zip(grid[0], miss[0])]),
                                      ('series.leading', lambda: s1.fillna_leading(fill), r_leading(grid[0], fill)), ('series.trailing', lambda: s1.fillna_trailing(fill), r_trailing(grid[0], fill))):
                    ctx.transition()
                    try:
                        check_series(ctx, f'narrow.{name}', fn(), exp, index, info)
                    except Exception as e:
                        ctx.violation(f'narrow.{name}|raises|{type(e).__name__}', **info, error=repr(e))
    ctx.outcome('N')
    ctx.sample({'family': 'narrow', 'kinds': kinds, 'nrows': nrows}, limit=1)


def run_series(case, ctx):
    _, kinds, n, _ = case
    k = kinds[0]
    index = ['r%d' % i for i in range(n)]
    fill_elem = -1
    for bits in itertools.product((0, 1), repeat=n):
        grid, arrays = make_cols(kinds, n, bits)
        vals = grid[0]
        s = sf.Series(arrays[0], index=index, name='s')
        miss = [is_missing(v) for v in vals]
        info = dict(kind=k, n=n, mask=bits)
        ctx.state(('S', k, n, bits))
        nontrivial = 0 < sum(bits) < n

        def op(name, func, exp_vals=None, exp_index=index, check=None):
            ctx.transition()
            if nontrivial:
                ctx.nontriv(('S', k, n, bits, name))
            try:
                res = func()
            except Exception as e:
                ctx.violation(f'series.{name}|raises|{type(e).__name__}', **info, error=repr(e))
                return
            if check:
                check(res)
            else:
                check_series(ctx, f'series.{name}', res, exp_vals, exp_index, info)
        op('isna', s.isna, miss)
        op('notna', s.notna, [not m for m in miss])

        def chk_count(res):
            if int(res) != sum(1 for m in miss if not m):
                ctx.violation('series.count', **info, got=res)
        op('count', s.count, check=chk_count)
        keep = [i for i in range(n) if not miss[i]]
        op('dropna', s.dropna, [vals[i] for i in keep], [index[i] for i in keep])
        op('fillna_elem', lambda: s.fillna(fill_elem), [fill_elem if m else v for v, m in zip(vals, miss)])
        if n:
            filler = sf.Series([100, 101, 102], index=['zz', index[-1], index[0]]) if n > 1 else None
            ev = list(vals)
            if miss[-1]:
                ev[-1] = 101
            if miss[0]:
                ev[0] = 102 if n > 1 else 101
            if n == 1:
                filler = sf.Series([100, 101], index=['zz', index[0]])
            op('fillna_series', lambda: s.fillna(filler), ev)
            # target labels in descending / rotated order, filler covering every label (in yet another order) plus a foreign one
            for oname, order in (('reversed', index[::-1]), ('rotated', index[1:] + index[:1])):
                s2 = sf.Series(arrays[0], index=order, name='s')
                fv = {lab: 200 + int(lab[1:]) for lab in index}
                filler2 = sf.Series([fv[l] for l in sorted(index, key=lambda l: (int(l[1:]) * 7) % 5)] + [999], index=sorted(index, key=lambda l: (int(l[1:]) * 7) % 5) + ['zz'])
                op(f'fillna_series_{oname}', lambda: s2.fillna(filler2), [fv[l] if m else v for l, v, m in zip(order, vals, miss)], order)
        for limit in range(0, n + 1):
            op(f'ffill_l{limit}', lambda limit=limit: s.fillna_forward(limit), r_ffill(vals, limit))
            op(f'bfill_l{limit}', lambda limit=limit: s.fillna_backward(limit), r_bfill(vals, limit))
        op('leading', lambda: s.fillna_leading(fill_elem), r_leading(vals, fill_elem))
        op('trailing', lambda: s.fillna_trailing(fill_elem), r_trailing(vals, fill_elem))
        if not all(same(g, e) for g, e in zip(list(s.values), vals)):
            ctx.violation('series|operand-changed', **info)
        ctx.outcome(f'S:n={n}:missing={sum(bits)}')
    ctx.sample({'series_kind': k, 'n': n, 'masks': 2 ** n}, limit=1)


def run_wide(case, ctx):
    _, kinds, nrows, _ = case
    ncols = len(kinds)
    ncap = sum(1 for k in kinds if k in CAPABLE)
    columns = ['c%d' % j for j in range(ncols)]
    protos = [np.empty(1, dtype=DTYPE[k]) for k in kinds]
    nlay = sum(1 for _ in U.layouts(protos))
    for bits in itertools.product((0, 1), repeat=ncap):
        grid, arrays = make_cols(kinds, 1, bits)
        row = [c[0] for c in grid]
        lays = list(U.layouts(arrays))
        for sig, blocks in lays:
            f = U.frame_from_blocks(blocks, 1, index=['r0'], columns=columns)
            ctx.state(('W', kinds, sig, bits))
            info = dict(kinds=kinds, layout=sig, mask=bits)
            for limit in range(0, 4):
                for name, meth, ref in (('ffill', f.fillna_forward, r_ffill), ('bfill', f.fillna_backward, r_bfill)):
                    ctx.transition()
                    if 0 < sum(bits) < ncap:
                        ctx.nontriv(('W', kinds, bits, name, limit))
                    try:
                        res = meth(limit, axis=1)
                    except Exception as e:
                        ctx.violation(f'frame.{name}1|wide|raises|{type(e).__name__}', **info, limit=limit, error=repr(e))
                        continue
                    exp = ref(row, limit)
                    got = [c[0] for c in columns_of(res)]
                    if len(got) != len(exp) or not all(same(g, e) for g, e in zip(got, exp)):
                        ctx.violation(f'frame.{name}1|wide|cells', **info, limit=limit, got=[norm(x) for x in got], expected=[norm(x) for x in exp])
    ctx.outcome('W')
    ctx.sample({'family': 'wide', 'kinds': kinds, 'layouts': nlay, 'masks': 2 ** ncap}, limit=1)


def run_case(case, ctx):
    if case[0] == 'F':
        run_frame(case, ctx)
    elif case[0] == 'W':
        run_wide(case, ctx)
    elif case[0] == 'N':
        run_narrow(case, ctx)
    else:
        run_series(case, ctx)
