"""C13 Grouping partitions the container; windows cover it as specified.

Mode P.  Groups: every key vector of bounded length over homogeneous and
mixed-type alphabets, one or two key columns / rows / label depths, both axes,
three block layouts; the partition laws are checked on every result and the
result is compared with a dict-of-lists reference; .apply over groups is compared
too.  Windows: every (n, size, step, window_sized, label_shift, start_shift,
size_increment) in the bounded grid on Series and both Frame axes against a
reference enumeration written from the documented semantics.
"""
import itertools

import numpy as np

import static_frame as sf
from mc import universe as U
from mc.observe import columns_of, norm

PROPERTY_ID = 'C13'
MODE = 'P (product enumeration: key vectors x key fields x axis x layout; window parameter grid)'
RULE = ('group case = (family, alphabet(s), n, layout, shard): every key vector over the alphabet is grouped by the real code; '
        'partition laws + reference partition (first-appearance independent, compared as key -> ordered member labels) + apply; '
        'window case = (container, n, window_sized, size_increment): all size/step/label_shift/start_shift combinations; '
        'non-trivial group = key vector with >=2 rows and at least one repeated and/or two distinct keys; non-trivial window = at least one window expected; '
        'states = distinct inputs; transitions = group / window iterations compared')
ASSUMPTIONS = [
    'group order is not specified by the statement and is not compared; member order inside a group is',
    'windows that contain no element (entirely outside the container) are not compared: the statement speaks of contiguous slices for valid anchor labels',
    'group keys compare with Python == after converting NumPy scalars (1 == True collisions are avoided in alphabets)',
]

ALPHA = {
    'int': (1, 2, 3),
    'str': ('x', 'y', 'z'),
    'mixed': ('x', 1, 2.5),       # object keys that cannot be sorted: forces the non-sorting path
    'float': (0.5, 1.5, -2.0),
    'bool': (True, False),
    'datens': (np.datetime64('2020-01-01T00:00:00.000000001', 'ns'), np.datetime64('2020-01-02T00:00:00', 'ns'), np.datetime64('2019-06-01T12:00:00', 'ns')),
}
DT = {'int': 'int64', 'str': '<U1', 'mixed': 'object', 'float': 'float64', 'bool': 'bool', 'datens': 'datetime64[ns]'}
LABELS = ['q', 'c', 'x', 'a', 'm', 'b']


def scope(tier):
    if tier == 'quick':
        return dict(n1=5, n2=4, win_n=6, sizes=6)
    return dict(n1=6, n2=5, win_n=8, sizes=8)


def arr(vals, dtype):
    if dtype == 'object':
        a = np.empty(len(vals), dtype=object)
        for i, v in enumerate(vals):
            a[i] = v
    else:
        a = np.array(list(vals), dtype=dtype) if len(vals) else np.array([], dtype=dtype)
    a.flags.writeable = False
    return a


def cases(tier):
    sc = scope(tier)

    def shards(size):
        k = max(1, size // 150)
        return [(i, k) for i in range(k)]
    for alpha in ALPHA:
        for n in range(0, sc['n1'] + 1):
            yield ('series_group', alpha, n)
            for li in range(3):
                for axis in (0, 1):
                    yield ('frame_group1', alpha, n, li, axis)
    for a1, a2 in (('int', 'int'), ('int', 'str'), ('mixed', 'int'), ('str', 'bool'), ('datens', 'datens')):
        for n in range(1, sc['n2'] + 1):
            for li in range(3):
                for sh in shards((len(ALPHA[a1]) * len(ALPHA[a2])) ** n):
                    yield ('frame_group2', a1, a2, n, li, sh)
    for n in range(1, sc['n1'] + 1):
        yield ('label_group', n)
    yield ('series_many_keys', 40, 2)
    yield ('series_many_keys', 33, 3)
    yield ('series_many_keys', 70, 2)
    for kind in ('series', 'frame0', 'frame1'):
        for n in range(0 if kind != 'frame1' else 1, sc['win_n'] + 1):
            for ws in (True, False):
                for inc in (0, 1, -1):
                    yield ('window', kind, n, ws, inc)
    for n in (2, 3, 4):
        yield ('window-hier', n)


def universe(tier):
    return dict(scope(tier), alphabets={k: [repr(x) for x in v] for k, v in ALPHA.items()},
                window_grid='size 1..sizes, step 0..3 (0 only with size_increment=1, window_sized), label_shift -2..1, start_shift -2..2')


def pykey(k):
    if isinstance(k, np.ndarray):
        return tuple(pykey(x) for x in k)      # element-wise (tolist() would turn datetime64[ns] into integers)
    if isinstance(k, (tuple, list)):
        return tuple(pykey(x) for x in k)
    n = norm(k)
    if n[0] in ('i', 'f') and n[1] != 'nan':
        return ('num', float(n[1]))   # 1 and 1.0 are the same key (label dtype resolution of a result index is not at issue here)
    return n


def ref_groups(keys):
    '''keys: list of python keys per member position -> dict normalised key -> list of positions'''
    out = {}
    for i, k in enumerate(keys):
        out.setdefault(pykey(k), []).append(i)
    return out


def check_partition(ctx, tag, items, keys, member_labels, cell_rows, sub_labels, sub_rows, info):
    '''items: list of (group key, sub container). keys: per member key; member_labels: labels on the grouped axis;
    cell_rows: per member the tuple of its cells; sub_labels(sub) / sub_rows(sub) read a group back.'''
    exp = ref_groups(keys)
    seen_keys = []
    got = {}
    for k, sub in items:
        nk = pykey(k)
        if nk in seen_keys:
            ctx.violation(f'{tag}|duplicate-group-key', **info, group_key=k)
            return
        seen_keys.append(nk)
        labs = sub_labels(sub)
        rows = sub_rows(sub)
        pos = []
        for lab, row in zip(labs, rows):
            if lab not in member_labels:
                ctx.violation(f'{tag}|unknown-member-label', **info, label=lab)
                return
            i = member_labels.index(lab)
            pos.append(i)
            if row != cell_rows[i]:
                ctx.violation(f'{tag}|member-cells-changed', **info, label=lab, got=row, expected=cell_rows[i])
                return
            if pykey(keys[i]) != nk:
                ctx.violation(f'{tag}|member-key-differs-from-group-key', **info, label=lab, group_key=k, member_key=keys[i])
                return
        got[nk] = pos
    if got != exp:
        ctx.violation(f'{tag}|partition', **info, got=got, expected=exp)


def frame_rows(f):
    cols = columns_of(f)
    return [tuple(norm(c[i]) for c in cols) for i in range(f.shape[0])]


def frame_cols(f):
    return [tuple(norm(x) for x in c) for c in columns_of(f)]


def build(keycols, keydts, n, li):
    cols = [arr(c, d) for c, d in zip(keycols, keydts)]
    names = ['k%d' % i for i in range(len(cols))]
    cols.append(arr(list(range(n)), 'int64'))
    names.append('pos')
    cols.append(arr([i + 0.5 for i in range(n)], 'float64'))
    names.append('val')
    lays = list(U.layouts(cols))
    if li == 0:
        sig, blocks = lays[0]
    elif li == 1:
        sig, blocks = lays[-1]
    else:
        blocks = [c.reshape(n, 1) for c in cols]
        for b in blocks:
            b.flags.writeable = False
        sig = ('all2x1',)
    return U.frame_from_blocks(blocks, n, index=LABELS[:n], columns=names, name='fn'), names, sig


def apply_forms(ctx, tag, mk_items, mk_values, measure, items, info):
    """every apply form over groups: one result per group, labelled by its key, in group order.  `items` is the (key, group) list of the items form."""
    kk = lambda k: pykey(tuple(k) if isinstance(k, (list, np.ndarray)) else k)
    exp = [(kk(k), measure(g)) for k, g in items]
    try:
        forms = {
            'items.apply': [(kk(k), int(v)) for k, v in zip(list(mk_items().apply(lambda k, g: measure(g)).index), mk_items().apply(lambda k, g: measure(g)).values.tolist())],
            'values.apply': [(kk(k), int(v)) for k, v in zip(list(mk_values().apply(measure).index), mk_values().apply(measure).values.tolist())],
            'values.apply_iter': list(zip([e[0] for e in exp], [int(v) for v in mk_values().apply_iter(measure)])),
            'values.apply_iter_items': [(kk(k), int(v)) for k, v in mk_values().apply_iter_items(measure)],
            'items.apply_iter_items': [(kk(k), int(v)) for k, v in mk_items().apply_iter_items(lambda k, g: measure(g))],
        }
    except Exception as e:
        ctx.violation(f'{tag}.apply-forms|raises|{type(e).__name__}', **info, error=repr(e))
        return
    for name, got in forms.items():
        if got != exp:
            ctx.violation(f'{tag}.{name}|one-result-per-group-labelled-by-key', **info, got=got, expected=exp)


def run_series_many_keys(case, ctx):
    '''Series with many distinct keys (more than any small-size shortcut), each repeated, interleaved: partition, keys and the original order inside every group'''
    _, nkeys, reps = case
    n = nkeys * reps
    for order_name, vec in (('interleaved', [(i * 7) % nkeys for i in range(n)]), ('descending-blocks', [nkeys - 1 - (i // reps) for i in range(n)]), ('mirrored', [min(i, n - 1 - i) % nkeys for i in range(n)])):
        labels = ['L%03d' % ((i * 37) % n) for i in range(n)]
        s = sf.Series(arr(vec, 'int64'), index=labels, name='nm')
        info = dict(keys=nkeys, repeats=reps, arrangement=order_name)
        ctx.state(('many', nkeys, reps, order_name))
        ctx.transition(2)
        ctx.nontriv(('many', nkeys, reps, order_name))
        try:
            items = list(s.iter_group_items())
            check_partition(ctx, 'series.iter_group_items|many-keys', items, list(vec), labels, [(norm(v),) for v in vec],
                            lambda g: g.index.values.tolist(), lambda g: [(norm(v),) for v in g.values], info)
            f = sf.Frame.from_items((('k', arr(vec, 'int64')), ('pos', arr(list(range(n)), 'int64'))), index=labels, name='fn')
            itf = list(f.iter_group_items('k'))
            check_partition(ctx, 'frame.iter_group_items|many-keys', itf, list(vec), labels, frame_rows(f), lambda g: g.index.values.tolist(), frame_rows, info)
        except Exception as e:
            ctx.violation(f'iter_group|many-keys|raises|{type(e).__name__}', **info, error=repr(e))
    ctx.outcome('many_keys')
    ctx.sample({'family': 'series_many_keys', 'keys': nkeys, 'repeats': reps}, limit=1)


def run_series_group(case, ctx):
    _, alpha, n = case
    labels = LABELS[:n]
    for vec in itertools.product(ALPHA[alpha], repeat=n):
        s = sf.Series(arr(vec, DT[alpha]), index=labels, name='nm')
        ctx.state(('S', alpha, vec))
        ctx.transition(2)
        if n >= 2:
            ctx.nontriv(('sg', alpha, vec))
        info = dict(values=vec)
        try:
            items = list(s.iter_group_items())
            groups = list(s.iter_group())
        except Exception as e:
            ctx.violation(f'series.iter_group|raises|{type(e).__name__}', **info, error=repr(e))
            continue
        check_partition(ctx, 'series.iter_group_items', items, list(vec), labels, [(norm(v),) for v in vec],
                        lambda g: g.index.values.tolist(), lambda g: [(norm(v),) for v in g.values], info)
        if [norm(g.index.values.tolist()) for g in groups] != [norm(g.index.values.tolist()) for _, g in items]:
            ctx.violation('series.iter_group|differs-from-items', **info)
        if n:
            ap = s.iter_group_items().apply(lambda k, g: len(g))
            exp = {k: len(v) for k, v in ref_groups(list(vec)).items()}
            got = {pykey(k): int(v) for k, v in zip(list(ap.index.values), ap.values.tolist())}
            if got != exp:
                ctx.violation('series.iter_group_items.apply', **info, got=got, expected=exp)
            apply_forms(ctx, 'series.iter_group', s.iter_group_items, s.iter_group, len, items, info)
            # the same values under a hierarchical and a date index: groups keep their labels, results are labelled by the group keys (values, not labels)
            for iname, ix in (('hier', sf.IndexHierarchy.from_labels([('u', i) if i < 2 else ('v', i) for i in range(n)])), ('date', sf.IndexDate([np.datetime64('2020-01-01') + np.timedelta64(i, 'D') for i in range(n)]))):
                s_ = sf.Series(arr(vec, DT[alpha]), index=ix, name='nm')
                try:
                    items_ = list(s_.iter_group_items())
                    if [pykey(k) for k, _ in items_] != [pykey(k) for k, _ in items] or [len(g) for _, g in items_] != [len(g) for _, g in items]:
                        ctx.violation(f'series.iter_group_items|{iname}-index|differs-from-flat-index', **info)
                    apply_forms(ctx, f'series.iter_group|{iname}-index', s_.iter_group_items, s_.iter_group, len, items_, info)
                except Exception as e:
                    ctx.violation(f'series.iter_group|{iname}-index|raises|{type(e).__name__}', **info, error=repr(e))
        ctx.outcome('series_group')
    ctx.sample({'family': 'series_group', 'alphabet': alpha, 'n': n}, limit=1)


def run_frame_group(case, ctx):
    fam = case[0]
    if fam == 'frame_group1':
        _, a1, n, li, axis = case
        alphas, sh, nsh = (a1,), 0, 1
    else:
        _, a1, a2, n, li, (sh, nsh) = case
        alphas, axis = (a1, a2), 0
    nk = len(alphas)
    for vi, vecs in enumerate(itertools.product(*(itertools.product(ALPHA[a], repeat=n) for a in alphas))):
        if vi % nsh != sh:
            continue
        keys = [vecs[0][i] if nk == 1 else tuple(vecs[k][i] for k in range(nk)) for i in range(n)]
        if axis == 0:
            f, names, sig = build(vecs, [DT[a] for a in alphas], n, li)
            label = names[0] if nk == 1 else names[:nk]
            member_labels = LABELS[:n]
            rows = frame_rows(f)
            sub_labels = lambda g: g.index.values.tolist()
            sub_rows = frame_rows
            other = lambda g: g.columns.values.tolist() == names
        else:
            # group columns by the values of one row; members are columns
            row0 = list(vecs[0])
            dt = DT[alphas[0]]
            cols = [arr([row0[j], row0[(j + 1) % n] if n else None], dt) for j in range(n)]
            lays = list(U.layouts(cols)) if n else [((), [])]
            sig, blocks = lays[0] if li == 0 else (lays[-1] if li == 1 else (('all2x1',), [U.frozen(c.reshape(2, 1)) for c in cols]))
            f = U.frame_from_blocks(blocks, 2, index=('r0', 'r1'), columns=LABELS[:n], name='fn')
            label = 'r0'
            member_labels = LABELS[:n]
            rows = frame_cols(f)
            sub_labels = lambda g: g.columns.values.tolist()
            sub_rows = frame_cols
            other = lambda g: g.index.values.tolist() == ['r0', 'r1']
        ctx.state((fam, alphas, vecs, sig, axis))
        ctx.transition(2)
        if n >= 2:
            ctx.nontriv((fam, alphas, vecs, axis))
        info = dict(keys=vecs, layout=sig, axis=axis)
        try:
            items = list(f.iter_group_items(label, axis=axis))
            groups = list(f.iter_group(label, axis=axis))
        except Exception as e:
            tag = '|zero-members' if n == 0 else ''
            ctx.violation(f'frame.iter_group|raises|{type(e).__name__}|axis={axis}|nk={nk}{tag}', **info, error=repr(e))
            continue
        check_partition(ctx, f'frame.iter_group_items|axis={axis}|nk={nk}', items, keys, member_labels, rows, sub_labels, sub_rows, info)
        for _, g in items:
            if not other(g):
                ctx.violation(f'frame.iter_group_items|other-axis-or-name|axis={axis}', **info)
                break
        if [sub_labels(g) for g in groups] != [sub_labels(g) for _, g in items]:
            ctx.violation('frame.iter_group|differs-from-items', **info)
        if n:
            try:
                ap = f.iter_group_items(label, axis=axis).apply(lambda k, g: g.shape[axis])
                exp = {k: len(v) for k, v in ref_groups(keys).items()}
                got = {pykey(tuple(k) if isinstance(k, list) else k): int(v) for k, v in zip(list(ap.index), ap.values.tolist())}
                if got != exp:
                    ctx.violation(f'frame.iter_group_items.apply|axis={axis}|nk={nk}', **info, got=got, expected=exp)
            except Exception as e:
                ctx.violation(f'frame.iter_group_items.apply|raises|{type(e).__name__}|nk={nk}', **info, error=repr(e))
            apply_forms(ctx, f'frame.iter_group|axis={axis}|nk={nk}', lambda: f.iter_group_items(label, axis=axis), lambda: f.iter_group(label, axis=axis),
                        lambda g: g.shape[axis], items, info)
        if nk == 1 and n:
            # the same single key given as a one-element list: groups are the same, keys are 1-tuples (both axes)
            try:
                items_l = list(f.iter_group_items([label], axis=axis))
                check_partition(ctx, f'frame.iter_group_items|axis={axis}|one-element-list-key', items_l, [(k,) for k in keys], member_labels, rows, sub_labels, sub_rows, info)
            except Exception as e:
                ctx.violation(f'frame.iter_group|one-element-list-key|raises|{type(e).__name__}|axis={axis}', **info, error=repr(e))
            if axis == 1 and n:
                # two key rows on axis 1: the key of a column is the pair of its cells in those rows
                try:
                    keys2 = [(row0[j], row0[(j + 1) % n]) for j in range(n)]
                    items_2 = list(f.iter_group_items(['r0', 'r1'], axis=1))
                    check_partition(ctx, 'frame.iter_group_items|axis=1|two-key-rows', items_2, keys2, member_labels, rows, sub_labels, sub_rows, info)
                except Exception as e:
                    ctx.violation(f'frame.iter_group|axis=1|two-key-rows|raises|{type(e).__name__}', **info, error=repr(e))
        ctx.outcome(fam)
    ctx.sample({'family': fam, 'alphabets': alphas, 'n': n, 'layout': li, 'axis': axis}, limit=1)


def run_label_group(case, ctx):
    '''group by label depth on hierarchical indices (all 2-level trees over n leaves with labels chosen so inner labels repeat).'''
    _, n = case
    outers = ('b', 'a', 'c')
    inners = (1, 2)
    pool = [(o, i) for o in outers for i in inners]
    for tuples in itertools.permutations(pool, n):
        # keep only tree-shaped orders (outer labels contiguous)
        seen, ok = [], True
        for t in tuples:
            if seen and t[0] != seen[-1] and t[0] in seen:
                ok = False
                break
            seen.append(t[0])
        if not ok:
            continue
        ih = sf.IndexHierarchy.from_labels(tuples)
        f = sf.Frame.from_items((('p', arr(list(range(n)), 'int64')), ('q', arr(['t%d' % i for i in range(n)], '<U2'))), index=ih, name='fn')
        s = sf.Series(arr(list(range(n)), 'int64'), index=ih, name='nm')
        ft = sf.Frame.from_records([list(range(n)), [i * 2 for i in range(n)]], index=('p', 'q'), columns=ih, name='fn')
        ctx.state(('LG', tuples))
        rows = frame_rows(f)
        # the depth selection as an int, a list, and the other iterables a caller may give (tuple, one-element tuple / list, range, integer array): any iterable gives tuple keys
        for depth in (0, 1, [0, 1], [1, 0], (0, 1), (1, 0), (1,), [0], range(2), np.array([1, 0])):
            dl = None if isinstance(depth, int) else [int(d_) for d_ in depth]
            keys = [t[depth] if dl is None else tuple(t[d_] for d_ in dl) for t in tuples]
            info = dict(tuples=tuples, depth=repr(depth))
            ctx.transition(3)
            if n >= 2:
                ctx.nontriv(('lg', tuples, repr(depth)))
            try:
                items = list(f.iter_group_labels_items(depth))
                check_partition(ctx, f'frame.iter_group_labels_items|depth={depth}', items, keys, list(tuples), rows,
                                lambda g: [tuple(t) for t in g.index], frame_rows, info)
                if n:
                    apply_forms(ctx, f'frame.iter_group_labels|depth={depth}', lambda: f.iter_group_labels_items(depth), lambda: f.iter_group_labels(depth), len, items, info)
                items = list(s.iter_group_labels_items(depth))
                if n:
                    apply_forms(ctx, f'series.iter_group_labels|depth={depth}', lambda: s.iter_group_labels_items(depth), lambda: s.iter_group_labels(depth), len, items, info)
                check_partition(ctx, f'series.iter_group_labels_items|depth={depth}', items, keys, list(tuples), [(norm(i),) for i in range(n)],
                                lambda g: [tuple(t) for t in g.index], lambda g: [(norm(v),) for v in g.values], info)
                items = list(ft.iter_group_labels_items(depth, axis=1))
                check_partition(ctx, f'frame.iter_group_labels_items|axis=1|depth={depth}', items, keys, list(tuples), frame_cols(ft),
                                lambda g: [tuple(t) for t in g.columns], frame_cols, info)
            except Exception as e:
                ctx.violation(f'iter_group_labels|raises|{type(e).__name__}|depth={depth}', **info, error=repr(e))
        ctx.outcome('label_group')
    # flat labels on the columns of a grow-only Frame that has just grown and has not been read since: one group per (distinct) label, straight after the growth
    for start in range(0, n + 1):
        labs = ['c%d' % i for i in range(n)]
        for how in ('items', 'values', 'apply'):
            ctx.transition()
            g = sf.FrameGO.from_items(((l, arr([i, i + 10], 'int64')) for i, l in enumerate(labs[:start])), index=('p', 'q')) if start else sf.FrameGO(index=('p', 'q'))
            for i, l in enumerate(labs[start:], start):
                g[l] = arr([i, i + 10], 'int64')
            ctx.state(('LG-go', n, start, how))
            if start < n:
                ctx.nontriv(('LG-go', n, start, how))
            info = dict(columns=labs, columns_present_at_construction=start, read_through=how)
            try:
                if how == 'items':
                    got = [(k, gg.columns.values.tolist(), gg.values.tolist()) for k, gg in g.iter_group_labels_items(0, axis=1)]
                elif how == 'values':
                    got = [(gg.columns.values.tolist()[0], gg.columns.values.tolist(), gg.values.tolist()) for gg in g.iter_group_labels(0, axis=1)]
                else:
                    r = g.iter_group_labels(0, axis=1).apply(lambda gg: int(gg.values[0, 0]))
                    got = [(k, [k], [[v], [v + 10]]) for k, v in r.items()]
                exp = [(l, [l], [[i], [i + 10]]) for i, l in enumerate(labs)]
                if got != exp:
                    ctx.violation(f'frame.iter_group_labels|axis=1|grown-FrameGO|{how}', **info, got=got, expected=exp)
            except Exception as e:
                ctx.violation(f'frame.iter_group_labels|axis=1|grown-FrameGO|{how}|raises|{type(e).__name__}', **info, error=repr(e))
    ctx.sample({'family': 'label_group', 'n': n}, limit=1)


# ------------------------------------------------------------------ windows
def ref_windows(n, size, step, window_sized, label_shift, start_shift, size_increment):
    out = []
    ref_windows.empties = 0
    t = 0
    while True:
        left = start_shift + t * step
        sz = size + t * size_increment
        if sz < 0:
            break
        right = left + sz - 1
        if step > 0 and left > n - 1 + max(0, -start_shift):   # (windows past the end are empty and only counted)
            break
        if step == 0 and (right > n + 1 or t > n + abs(start_shift) + 1):
            break
        lo, hi = max(left, 0), min(right, n - 1)
        t += 1
        if lo > hi:
            ref_windows.empties += 1
            continue  # empty window: outside the comparison
        idx = right + label_shift
        if idx < 0 or idx >= n:
            continue
        if window_sized and (hi - lo + 1) != sz:
            continue
        out.append((idx, list(range(lo, hi + 1))))
    return out


def run_window(case, ctx):
    _, kind, n, ws, inc = case
    labels = LABELS[:n] if n <= len(LABELS) else LABELS + ['w%d' % i for i in range(n - len(LABELS))]
    sc_sizes = run_window.sizes
    if kind == 'series':
        src = sf.Series(arr(list(range(n)), 'int64'), index=labels, name='nm')
    elif kind == 'frame0':
        src = sf.Frame.from_items((('p', arr(list(range(n)), 'int64')), ('q', arr(['t%d' % i for i in range(n)], '<U2'))), index=labels, name='fn')
    else:
        src = sf.Frame.from_records([list(range(n)), [i * 2 for i in range(n)]], index=('p', 'q'), columns=labels, name='fn')
    axis = 1 if kind == 'frame1' else 0
    ctx.state(('W', kind, n))
    for size in range(1, sc_sizes + 1):
        for step in (0, 1, 2, 3):
            if step == 0 and not (inc == 1 and ws):
                continue
            for lshift in (-2, -1, 0, 1):
                for sshift in (-2, -1, 0, 1, 2):
                    exp = ref_windows(n, size, step, ws, lshift, sshift, inc)
                    n_empty = ref_windows.empties
                    info = dict(kind=kind, n=n, size=size, step=step, window_sized=ws, label_shift=lshift, start_shift=sshift, size_increment=inc)
                    ctx.transition()
                    if exp:
                        ctx.nontriv(('w', kind, n, size, step, ws, lshift, sshift, inc))
                    kw = dict(size=size, step=step, window_sized=ws, label_shift=lshift, start_shift=sshift, size_increment=inc)
                    if kind != 'series':
                        kw['axis'] = axis
                    try:
                        items = list(src.iter_window_items(**kw))
                    except Exception as e:
                        ctx.violation(f'iter_window_items|raises|{type(e).__name__}|{kind}', **info, error=repr(e))
                        continue
                    try:
                        arrays = list(src.iter_window_array_items(**kw))
                    except Exception as e:
                        # classify: does some window of the iteration lie entirely outside the container (an empty slice)?
                        lead = '|some-window-is-empty' if (n_empty or sshift >= n) else ''
                        ctx.violation(f'iter_window_array_items|raises|{type(e).__name__}|{kind}{lead}', **info, error=repr(e))
                        arrays = None
                    got = []
                    for lab, w in items:
                        wl = (w.index if axis == 0 else w.columns).values.tolist()
                        if not wl:
                            continue
                        pos = [labels.index(x) for x in wl]
                        # window content must be the original cells of those positions
                        if kind == 'series':
                            okc = w.values.tolist() == pos
                        elif kind == 'frame0':
                            okc = w['p'].values.tolist() == pos and w.columns.values.tolist() == ['p', 'q']
                        else:
                            okc = w.loc['p'].values.tolist() == pos and w.index.values.tolist() == ['p', 'q']
                        if not okc:
                            ctx.violation(f'iter_window_items|window-cells|{kind}', **info, label=lab, window_labels=wl)
                        got.append((labels.index(lab), pos))
                    gota = []
                    for lab, a in (arrays or ()):
                        if a.shape[axis if a.ndim == 2 else 0] == 0:
                            continue
                        vals = a.tolist() if kind == 'series' else (a[:, 0].tolist() if kind == 'frame0' else a[0].tolist())
                        gota.append((labels.index(lab), [int(v) for v in vals]))
                    # values-only forms and apply: the same windows in the same order as the items form
                    def wpos(w):
                        wl_ = (w.index if axis == 0 else w.columns).values.tolist()
                        return [labels.index(x) for x in wl_]

                    def apos(a):
                        if a.shape[axis if a.ndim == 2 else 0] == 0:
                            return []
                        return [int(v) for v in (a.tolist() if kind == 'series' else (a[:, 0].tolist() if kind == 'frame0' else a[0].tolist()))]
                    try:
                        vals_form = [p_ for p_ in (wpos(w) for w in src.iter_window(**kw)) if p_]
                        arr_form = [p_ for p_ in (apos(a) for a in src.iter_window_array(**kw)) if p_] if arrays is not None else None
                        anchors = [lab for lab, _ in items]
                        if len(set(anchors)) == len(anchors):     # shrinking windows (size_increment < 0) can share an anchor label: no labelled result then
                            applied = src.iter_window(**kw).apply(lambda w: tuple(wpos(w)), dtype=object)
                            app_form = [(labels.index(l), list(v)) for l, v in applied.items() if v]
                        else:
                            app_form = got
                    except Exception as e:
                        ctx.violation(f'iter_window-values-forms|raises|{type(e).__name__}|{kind}', **info, error=repr(e))
                    else:
                        if vals_form != [p_ for _, p_ in got]:
                            ctx.violation(f'iter_window|differs-from-items-form|{kind}', **info, got=vals_form, items=[p_ for _, p_ in got])
                        elif arr_form is not None and arr_form != [p_ for _, p_ in gota]:
                            ctx.violation(f'iter_window_array|differs-from-items-form|{kind}', **info, got=arr_form, items=[p_ for _, p_ in gota])
                        elif app_form != got:
                            ctx.violation(f'iter_window.apply|differs-from-items-form|{kind}', **info, got=app_form, items=got)
                    if got != exp:
                        ctx.violation(f'iter_window_items|windows|{kind}', **info, got=got, expected=exp)
                    elif arrays is not None and gota != exp:
                        ctx.violation(f'iter_window_array_items|windows|{kind}', **info, got=gota, expected=exp)
    ctx.outcome('window:' + kind)
    ctx.sample({'family': 'window', 'kind': kind, 'n': n, 'window_sized': ws, 'size_increment': inc}, limit=1)


run_window.sizes = 5


def run_window_hier(case, ctx):
    """windows over Frames one of whose axes is hierarchical: the function-application form returns one result per anchor, labelled by the anchor labels of the
    axis the windows move along (a hierarchy when that axis is one), whatever the other axis is"""
    _, n = case
    flat = ['r%d' % i for i in range(n)]
    hier = [('g%d' % (i // 2), 'r%d' % i) for i in range(n)]
    other_flat, other_hier = ['p', 'q'], [('o', 'p'), ('o', 'q')]
    for moving_hier, other_is_hier, axis, size in itertools.product((False, True), (False, True), (0, 1), (1, 2, 3)):
        if size > n:
            continue
        moving = sf.IndexHierarchy.from_labels(hier) if moving_hier else sf.Index(flat)
        other = sf.IndexHierarchy.from_labels(other_hier) if other_is_hier else sf.Index(other_flat)
        data = np.arange(n * 2).reshape(n, 2)
        f = sf.Frame(data, index=moving, columns=other) if axis == 0 else sf.Frame(data.T, index=other, columns=moving)
        for klass in ('Frame', 'FrameGO'):
            if klass == 'FrameGO':
                f = f.to_frame_go()
            _window_hier_one(ctx, f, klass, n, hier, flat, moving_hier, other_is_hier, axis, size)
    ctx.outcome('window-hier')
    ctx.sample({'family': 'window-hier', 'n': n}, limit=1)


def _window_hier_one(ctx, f, klass, n, hier, flat, moving_hier, other_is_hier, axis, size):
    if True:
        ctx.state(('window-hier', klass, n, moving_hier, other_is_hier, axis, size))
        ctx.nontriv(('window-hier', klass, n, moving_hier, other_is_hier, axis, size))
        info = dict(n=n, container=klass, moving_axis_hierarchical=moving_hier, other_axis_hierarchical=other_is_hier, axis=axis, size=size)
        mlabels = hier if moving_hier else flat
        exp = [(mlabels[i], list(range(i - size + 1, i + 1))) for i in range(size - 1, n)]
        for form in ('iter_window', 'iter_window_array', 'iter_window_items', 'iter_window_array_items'):
            ctx.transition()
            try:
                it = getattr(f, form)(size=size, axis=axis)
                if form.endswith('_items'):
                    r = it.apply(lambda k, w: int(w.shape[axis]))
                else:
                    r = it.apply(lambda w: int(w.shape[axis]))
                got_labels = [tuple(l) if moving_hier else l for l in r.index]
                if got_labels != [l for l, _ in exp] or r.values.tolist() != [size] * len(exp) or isinstance(r.index, sf.IndexHierarchy) != moving_hier:
                    ctx.violation(f'window-hier|{form}.apply|labels-or-values', **info, got=(type(r.index).__name__, got_labels, r.values.tolist()), expected=[l for l, _ in exp])
            except Exception as e:
                ctx.violation(f'window-hier|{form}.apply|raises|{type(e).__name__}', **info, error=repr(e))


def run_case(case, ctx):
    fam = case[0]
    if fam == 'window-hier':
        return run_window_hier(case, ctx)
    if fam == 'series_many_keys':
        run_series_many_keys(case, ctx)
    elif fam == 'series_group':
        run_series_group(case, ctx)
    elif fam.startswith('frame_group'):
        run_frame_group(case, ctx)
    elif fam == 'label_group':
        run_label_group(case, ctx)
    else:
        run_window(case, ctx)


_cases = cases


def cases(tier):  # noqa: F811
    run_window.sizes = scope(tier)['sizes']
    return _cases(tier)
