"""C08 Functional update interfaces change only what they address.

Mode P.  assign / drop / mask / masked_array / astype / relabel / rename /
insert_before / insert_after on Series and Frames (index kinds, layouts and key
universes shared with C04) are compared with a reference copy in which exactly the
addressed cells / rows / columns / dtypes / labels are changed; the operand is
snapshotted before and after every call.
"""
import itertools

import numpy as np

import static_frame as sf
from mc import universe as U
from mc.observe import columns_of, is_missing, norm, snap
from mc.props.c04 import (absent_labels, auto_class, eqv, key_repr, label_keys, layout_specs, make_axis, make_frame, pos_keys, reduced_lab, reduced_pos, resolve)
from mc.refsel import lk

PROPERTY_ID = 'C08'
MODE = 'P (product enumeration: container x index kind x key universe x interface x value shape x layout; reference = edited copy)'
RULE = ('case = (interface family, index kinds, shape, layout, shard); for every key the reference copies the original cell grid and edits exactly the '
        'addressed cells (assign), removes exactly the addressed rows/columns (drop), marks exactly the addressed cells (mask / masked_array), changes exactly '
        'the addressed dtypes / labels / names (astype, relabel, rename, insert); non-trivial = key addressing a proper non-empty subset; '
        'states = distinct (container, key, value shape); transitions = update calls compared; the operand snapshot must be unchanged after every call')
ASSUMPTIONS = [
    'unlabelled array values pair with addressed rows in key order and with addressed columns in ascending column order (documented); for non-ascending column keys only pairing-independent arrays are used',
    'a labelled value is aligned by label; addressed cells it does not cover receive the missing marker',
    'keys that repeat a position, or address an absent label, must be refused (any exception) -- no updated container may come back',
]

FILL = -7


def grid_of(f):
    return [list(c) for c in columns_of(f)]


def same_grid(got, exp):
    return len(got) == len(exp) and all(len(g) == len(e) and all(eqv(a, b) for a, b in zip(g, e)) for g, e in zip(got, exp))


def labels_of(ix):
    return [lk(x) for x in (ix.values.tolist() if ix.depth == 1 else list(ix))]


def scope(tier):
    return dict(series_n=(1, 2, 3) if tier == 'quick' else (1, 2, 3, 4), shapes=((2, 3), (3, 2)) if tier == 'quick' else ((2, 3), (3, 2), (3, 3)))


SER_KINDS = ('str', 'int', 'auto', 'date')
FRAME_KINDS = (('str', 'str'), ('auto', 'auto'), ('int', 'obj'), ('date', 'str'))


def cases(tier):
    sc = scope(tier)
    for kind in SER_KINDS:
        for n in sc['series_n']:
            for route in ('iloc', 'loc', 'getitem'):
                yield ('series', kind, n, route)
    for (nr, nc) in sc['shapes']:
        for rk, ck in FRAME_KINDS:
            for li in layout_specs(nc, tier):
                for fam in ('assign1', 'assign2', 'drop', 'mask', 'astype', 'labels', 'bloc'):
                    yield ('frame', fam, rk, ck, nr, nc, li)


def universe(tier):
    sc = scope(tier)
    return {'series_index_kinds': SER_KINDS, 'series_lengths': list(sc['series_n']), 'frame_index_kinds': [list(k) for k in FRAME_KINDS],
            'frame_shapes': [list(s) for s in sc['shapes']], 'layouts': 4,
            'value_shapes': ['element', '1-D array', '2-D array', 'Series (covering / partial / permuted)', 'Frame (partial, permuted)', 'apply(func)']}


def unchanged(ctx, tag, obj, before, info):
    if snap(obj) != before:
        ctx.violation(f'{tag}|operand-changed', **info)


# ------------------------------------------------------------------ series
def run_series(case, ctx):
    _, kind, n, route = case
    ix, ref = make_axis(kind, n)
    vals = [100 + i for i in range(n)]
    s = sf.Series(U.frozen(np.array(vals, dtype=np.int64)), index=ix, name='nm')
    before = snap(s)
    keys = pos_keys(n) if route == 'iloc' else label_keys(kind, ref)
    labs = labels_of(s.index)

    def sel_if(obj, key):
        return getattr(obj, route)[key] if route != 'getitem' else obj[key]
    for kname, key in keys:
        sel, err = resolve(ref, key, route == 'iloc')
        if err == 'lookup' and route != 'iloc' and auto_class(kind, key):
            continue   # negative / beyond-end integer "labels" on an auto-integer index: that upstream behaviour is C04's known finding
        info = dict(index_kind=kind, n=n, route=route, key=key_repr(key), key_kind=kname)
        ctx.state(('S', kind, n, route, key_repr(key)))
        pos = None if err else ([sel[1]] if sel[0] == 'scalar' else sel[1])
        if pos is not None and 0 < len(pos) < n:
            ctx.nontriv(('S', kind, n, route, key_repr(key)))
        # value menu
        values = [('element', FILL, lambda p: [FILL] * len(p))]
        if pos is not None and sel[0] == 'multi':
            arr = np.array([1000 + i for i in range(len(pos))], dtype=np.int64)
            values.append(('array', arr, lambda p, arr=arr: list(arr)))
            if n:
                # labelled value: covers the first and last label of the axis plus an unknown one, in reversed order
                vlabs = [ref.labels[-1], ref.labels[0]]
                sv = sf.Series([5000, 6000], index=sf.IndexDate(vlabs) if kind == 'date' else vlabs) if n > 1 else sf.Series([5000], index=sf.IndexDate(vlabs[:1]) if kind == 'date' else vlabs[:1])
                cover = {lk(l): v for l, v in zip(sv.index.values.tolist(), sv.values.tolist())}
                values.append(('series', sv, lambda p, cover=cover: [cover.get(lk(ref.labels[i]), np.nan) for i in p]))
        for vname, v, expand in values:
            ctx.transition()
            tag = f'series.assign.{route}|index={kind}|{kname}|value={vname}'
            try:
                r = sel_if(s.assign, key)(v)
                got_err = None
            except Exception as e:
                r, got_err = None, type(e).__name__
            if err == 'duplicate':
                continue   # the same cell addressed twice: outcome not fixed by the statement
            if err:
                if got_err is None:
                    ctx.violation(f'{tag}|accepted-{err}-key', **info, got=r.values.tolist())
                continue
            if got_err:
                ctx.violation(f'{tag}|raises-{got_err}', **info, positions=pos)
                continue
            exp = list(vals)
            for p, x in zip(pos, expand(pos)):
                exp[p] = x
            if not isinstance(r, sf.Series) or labels_of(r.index) != labs or not all(eqv(a, b) for a, b in zip(r.values.tolist(), exp)) or len(r) != n or r.name != 'nm':
                ctx.violation(f'{tag}|result', **info, got=[norm(x) for x in r.values.tolist()], expected=[norm(x) for x in exp])
        # apply(func)
        if not err and pos:
            ctx.transition()
            try:
                r = sel_if(s.assign, key).apply(lambda x: x * -1)
                exp = [(-v if i in pos else v) for i, v in enumerate(vals)]
                if r.values.tolist() != exp or labels_of(r.index) != labs:
                    ctx.violation(f'series.assign.{route}.apply|index={kind}|{kname}|result', **info, got=r.values.tolist(), expected=exp)
            except Exception as e:
                ctx.violation(f'series.assign.{route}.apply|index={kind}|{kname}|raises-{type(e).__name__}', **info)
        # drop / mask / masked_array
        for iname in ('drop', 'mask', 'masked_array'):
            ctx.transition()
            tag = f'series.{iname}.{route}|index={kind}|{kname}'
            try:
                r = sel_if(getattr(s, iname), key)
                got_err = None
            except Exception as e:
                r, got_err = None, type(e).__name__
            if err == 'lookup':
                if got_err is None:
                    ctx.violation(f'{tag}|accepted-{err}-key', **info)
                continue
            if err:
                continue   # repeated positions: dropping / masking a position twice is harmless and unspecified
            if got_err:
                ctx.violation(f'{tag}|raises-{got_err}', **info, positions=pos)
                continue
            if iname == 'drop':
                keep = [i for i in range(n) if i not in pos]
                if labels_of(r.index) != [labs[i] for i in keep] or r.values.tolist() != [vals[i] for i in keep] or r.name != 'nm':
                    ctx.violation(f'{tag}|result', **info, got=(labels_of(r.index), r.values.tolist()), expected=[labs[i] for i in keep])
            elif iname == 'mask':
                exp = [i in pos for i in range(n)]
                if labels_of(r.index) != labs or r.values.tolist() != exp or r.values.dtype != bool:
                    ctx.violation(f'{tag}|result', **info, got=r.values.tolist(), expected=exp)
            else:
                exp = [i in pos for i in range(n)]
                if np.ma.getmaskarray(r).tolist() != exp or r.data.tolist() != vals:
                    ctx.violation(f'{tag}|result', **info, got=np.ma.getmaskarray(r).tolist(), expected=exp)
        unchanged(ctx, f'series.{route}', s, before, info)
    # astype / relabel / rename
    if route == 'loc' and n:
        ctx.transition(3)
        r = s.astype(float)
        if r.values.dtype != np.float64 or r.values.tolist() != [float(v) for v in vals] or labels_of(r.index) != labs or r.name != 'nm':
            ctx.violation('series.astype|result', n=n, got=repr(r))
        r = s.rename('other')
        if r.name != 'other' or r.values.tolist() != vals or labels_of(r.index) != labs or str(r.values.dtype) != 'int64':
            ctx.violation('series.rename|result', n=n, got=repr(r))
        new = ['L%d' % i for i in range(n)]
        r = s.relabel(new)
        if r.index.values.tolist() != new or r.values.tolist() != vals or r.name != 'nm':
            ctx.violation('series.relabel|result', n=n, got=repr(r))
        unchanged(ctx, 'series.astype-rename-relabel', s, before, dict(n=n, kind=kind))
    ctx.outcome('series')
    ctx.sample({'family': 'series', 'index_kind': kind, 'n': n, 'route': route, 'keys': len(keys)}, limit=1)


# ------------------------------------------------------------------ frames
def key_plans(f, rk, ck, rref, cref, nr, nc, two_axis):
    '''(route name, kinds, getter(interface) -> selection object, rsel-or-err, csel-or-err)'''
    allr, allc = (('multi', list(range(nr))), None), (('multi', list(range(nc))), None)
    plans = []
    if not two_axis:
        for kname, k in pos_keys(nr, full=False):
            plans.append(('iloc[r]', kname, k, lambda i, k=k: i.iloc[k], resolve(rref, k, True), allc))
        for kname, k in pos_keys(nc, full=False):
            plans.append(('iloc[:,c]', kname, k, lambda i, k=k: i.iloc[:, k], allr, resolve(cref, k, True)))
        for kname, k in label_keys(rk, rref, full=False):
            if isinstance(k, tuple):
                continue
            plans.append(('loc[r]', kname, k, lambda i, k=k: i.loc[k], resolve(rref, k, False), allc))
        for kname, k in label_keys(ck, cref, full=False):
            plans.append(('getitem[c]', kname, k, lambda i, k=k: i[k], allr, resolve(cref, k, False)))
    else:
        for (rn, r), (cn, c) in itertools.product(reduced_pos(nr), reduced_pos(nc)):
            plans.append(('iloc[r,c]', rn + 'x' + cn, (r, c), lambda i, r=r, c=c: i.iloc[r, c], resolve(rref, r, True), resolve(cref, c, True)))
        for (rn, r), (cn, c) in itertools.product(reduced_lab(rk, rref), reduced_lab(ck, cref)):
            plans.append(('loc[r,c]', rn + 'x' + cn, (r, c), lambda i, r=r, c=c: i.loc[r, c], resolve(rref, r, False), resolve(cref, c, False)))
    return plans


def as_positions(sel):
    return [sel[1]] if sel[0] == 'scalar' else list(sel[1])


def run_frame(case, ctx):
    _, fam, rk, ck, nr, nc, li = case
    f, rref, cref, grid, sig = make_frame(rk, ck, nr, nc, li)
    before = snap(f)
    rlabs, clabs = labels_of(f.index), labels_of(f.columns)
    dtypes0 = [str(c.dtype) for c in columns_of(f)]
    base = dict(rows=rk, cols=ck, shape=(nr, nc), layout=sig)

    def check_result(tag, r, exp_grid, info, addressed_cols=None, exp_r=None, exp_c=None, name='fn'):
        er = rlabs if exp_r is None else exp_r
        ec = clabs if exp_c is None else exp_c
        if not isinstance(r, sf.Frame):
            ctx.violation(f'{tag}|not-a-frame', **info, got=type(r).__name__)
            return
        if labels_of(r.index) != er or labels_of(r.columns) != ec or (name is not None and r.name != name):
            ctx.violation(f'{tag}|labels-or-name', **info, got=(labels_of(r.index), labels_of(r.columns), r.name))
            return
        g = grid_of(r)
        if not same_grid(g, exp_grid):
            ctx.violation(f'{tag}|cells', **info, got=[[norm(x) for x in c] for c in g], expected=[[norm(x) for x in c] for c in exp_grid])
            return
        if addressed_cols is not None:
            for j, d in enumerate(dtypes0):
                if j not in addressed_cols and str(columns_of(r)[j].dtype) != d:
                    ctx.violation(f'{tag}|unaddressed-column-dtype-changed', **info, column=j, before=d, after=str(columns_of(r)[j].dtype))
                    return

    if fam in ('assign1', 'assign2', 'drop', 'mask'):
        plans = key_plans(f, rk, ck, rref, cref, nr, nc, fam == 'assign2')
        if fam in ('drop', 'mask'):
            plans = plans + key_plans(f, rk, ck, rref, cref, nr, nc, True)[::3]
        for route, kname, key, getter, (rsel, rerr), (csel, cerr) in plans:
            info = dict(base, route=route, key=key_repr(key) if not isinstance(key, tuple) or route in ('iloc[r]', 'loc[r]', 'getitem[c]', 'iloc[:,c]') else (key_repr(key[0]), key_repr(key[1])), key_kind=kname)
            ctx.state((fam, rk, ck, nr, nc, sig, route, repr(info['key'])))
            err = rerr or cerr
            if err == 'lookup':
                if 'loc' in route or 'getitem' in route:
                    ks = key if isinstance(key, tuple) and route == 'loc[r,c]' else (key,)
                    if any(auto_class(kd, k) for kd, k in zip((rk, ck) if len(ks) == 2 else ((rk,) if route == 'loc[r]' else (ck,)), ks)):
                        continue   # see C04 known finding (auto-integer index)
                # an absent position on one axis while the other axis addresses nothing: no cell is addressed, nothing to demand
                if (rerr and not cerr and not as_positions(csel)) or (cerr and not rerr and not as_positions(rsel)):
                    continue
            if not err:
                rp, cp = as_positions(rsel), as_positions(csel)
                if 0 < len(rp) * len(cp) < nr * nc:
                    ctx.nontriv((fam, rk, ck, nr, nc, route, repr(info['key'])))
            if fam in ('assign1', 'assign2'):
                values = [('element', FILL)]
                if not err:
                    asc = cp == sorted(cp)
                    if rsel[0] == 'scalar' and csel[0] == 'multi' and cp:
                        values.append(('array-1d', np.array([1000 + j for j in range(len(cp))]) if asc else np.full(len(cp), 1000)))
                        vl = [cref.labels[-1], cref.labels[0]] if nc > 1 else [cref.labels[0]]
                        if ck == 'obj':
                            a = np.empty(len(vl), dtype=object)
                            for q, x in enumerate(vl):
                                a[q] = x
                            vl = a
                        values.append(('series', sf.Series([5000 + q for q in range(len(vl))], index=vl)))
                    elif csel[0] == 'scalar' and rsel[0] == 'multi' and rp:
                        values.append(('array-1d', np.array([1000 + i for i in range(len(rp))])))
                        vl = [rref.labels[-1], rref.labels[0]] if nr > 1 else [rref.labels[0]]
                        values.append(('series', sf.Series([5000 + q for q in range(len(vl))], index=sf.IndexDate(vl) if rk == 'date' else vl)))
                    elif rsel[0] == 'multi' and csel[0] == 'multi' and rp and cp:
                        a2 = np.array([[1000 + 10 * i + j for j in range(len(cp))] for i in range(len(rp))]) if asc else np.array([[1000 + 10 * i] * len(cp) for i in range(len(rp))])
                        values.append(('array-2d', a2))
                        # labelled Frame: last row label and an unknown one x first column label and an unknown one, permuted
                        rl = [rref.labels[-1]]
                        cl = [cref.labels[0]]
                        if rk != 'obj' and ck != 'obj':
                            fv = sf.Frame.from_records([[7000]], index=sf.IndexDate(rl) if rk == 'date' else rl, columns=cl)
                            values.append(('frame', fv))
                for vname, v in values:
                    ctx.transition()
                    tag = f'frame.assign.{route}|index={rk}x{ck}|{kname}|value={vname}'
                    try:
                        r = getter(f.assign)(v)
                        got_err = None
                    except Exception as e:
                        r, got_err = None, type(e).__name__
                    if err == 'duplicate':
                        continue
                    if err:
                        if got_err is None:
                            ctx.violation(f'{tag}|accepted-{err}-key', **info)
                        continue
                    if got_err:
                        ctx.violation(f'{tag}|raises-{got_err}', **info, row_positions=rp, column_positions=cp)
                        continue
                    exp = [list(c) for c in grid]
                    cps = sorted(cp)
                    for ii, i in enumerate(rp):
                        for j in cp:
                            if vname == 'element':
                                x = v
                            elif vname == 'array-1d':
                                x = v[cps.index(j)] if rsel[0] == 'scalar' else v[ii]
                            elif vname == 'array-2d':
                                x = v[ii, cps.index(j)]
                            elif vname == 'series':
                                cover = {lk(l): val for l, val in zip(v.index.values.tolist(), v.values.tolist())}
                                x = cover.get(lk(cref.labels[j]) if rsel[0] == 'scalar' else lk(rref.labels[i]), np.nan)
                            else:
                                cover = {(lk(a), lk(b)): v.loc[a, b] for a in v.index.values.tolist() for b in v.columns.values.tolist()}
                                x = cover.get((lk(rref.labels[i]), lk(cref.labels[j])), np.nan)
                            exp[j][i] = x
                    check_result(tag, r, exp, info, addressed_cols=set(cp))
                if not err and rp and cp and fam == 'assign1':
                    ctx.transition()
                    tag = f'frame.assign.{route}.apply|index={rk}x{ck}|{kname}'
                    try:
                        r = getter(f.assign).apply(lambda x: x)
                        check_result(tag, r, grid, info, addressed_cols=set(cp))
                    except Exception as e:
                        ctx.violation(f'{tag}|raises-{type(e).__name__}', **info)
            else:
                for iname in (('drop',) if fam == 'drop' else ('mask', 'masked_array')):
                    ctx.transition()
                    tag = f'frame.{iname}.{route}|index={rk}x{ck}|{kname}'
                    try:
                        r = getter(getattr(f, iname))
                        got_err = None
                    except Exception as e:
                        r, got_err = None, type(e).__name__
                    if err == 'lookup':
                        if got_err is None:
                            ctx.violation(f'{tag}|accepted-{err}-key', **info)
                        continue
                    if err:
                        continue
                    if got_err:
                        ctx.violation(f'{tag}|raises-{got_err}', **info, row_positions=rp, column_positions=cp)
                        continue
                    if iname == 'drop':
                        # exactly the addressed rows and columns go: a row key (':' included -- it addresses every row) drops rows,
                        # a column key drops columns; single-axis routes address the other axis not at all
                        drop_r = set(rp) if route in ('iloc[r]', 'loc[r]', 'iloc[r,c]', 'loc[r,c]', 'iloc[:,c]') else set()
                        drop_c = set(cp) if route in ('iloc[:,c]', 'getitem[c]', 'iloc[r,c]', 'loc[r,c]') else set()
                        keep_r = [i for i in range(nr) if i not in drop_r]
                        keep_c = [j for j in range(nc) if j not in drop_c]
                        exp = [[grid[j][i] for i in keep_r] for j in keep_c]
                        check_result(tag, r, exp, info, exp_r=[rlabs[i] for i in keep_r], exp_c=[clabs[j] for j in keep_c])
                    else:
                        expm = [[(i in rp and j in cp) for i in range(nr)] for j in range(nc)]
                        if iname == 'mask':
                            check_result(tag, r, expm, info, name=None)
                            if isinstance(r, sf.Frame) and any(str(c.dtype) != 'bool' for c in columns_of(r)):
                                ctx.violation(f'{tag}|not-boolean', **info)
                        else:
                            gm = np.ma.getmaskarray(r)
                            if gm.shape != (nr, nc) or [[bool(gm[i, j]) for i in range(nr)] for j in range(nc)] != expm:
                                ctx.violation(f'{tag}|mask', **info, got=gm.tolist())
            unchanged(ctx, f'frame.{fam}', f, before, info)
    elif fam == 'bloc':
        # Boolean-frame assignment: every mask over the cells x {element, same-shape array, Boolean Frame key with permuted labels}
        for bits in itertools.product((False, True), repeat=nr * nc):
            m = np.array(bits, dtype=bool).reshape(nr, nc)
            info = dict(base, route='assign.bloc', mask=bits)
            ctx.state(('bloc', rk, ck, nr, nc, sig, bits))
            if any(bits) and not all(bits):
                ctx.nontriv(('bloc', rk, ck, nr, nc, bits))
            arr2 = np.array([[1000 + 10 * i + j for j in range(nc)] for i in range(nr)])
            keyf = sf.Frame(m, index=f.index, columns=f.columns)
            keyp = keyf.iloc[::-1, ::-1] if nr and nc else keyf
            for kname, key in (('array', m), ('frame', keyf), ('frame-permuted', keyp)):
                vframe = sf.Frame(arr2, index=f.index, columns=f.columns)
                values_ = [('element', FILL), ('array-2d', arr2)]
                if nr and nc:
                    # label-aligned Frame values: same columns with the rows in another order, and both axes in another order
                    values_ += [('frame-rows-reversed', vframe.iloc[::-1]), ('frame-both-reversed', vframe.iloc[::-1, ::-1]), ('frame-columns-reversed', vframe.iloc[:, ::-1])]
                for vname, v in values_:
                    ctx.transition()
                    tag = f'frame.assign.bloc|key={kname}|value={vname}'
                    try:
                        r = f.assign.bloc[key](v)
                    except Exception as e:
                        ctx.violation(f'{tag}|raises-{type(e).__name__}', **info, error=repr(e))
                        continue
                    exp = [[(v if vname == 'element' else arr2[i, j]) if m[i, j] else grid[j][i] for i in range(nr)] for j in range(nc)]
                    check_result(tag, r, exp, info, addressed_cols={j for j in range(nc) if m[:, j].any()} if all(x in ('1', '2x1', 'all2x1', 'ifs', 'iis', 'iff', 'iii', 'sii') for x in sig) else None)
            unchanged(ctx, 'frame.bloc', f, before, info)
    elif fam == 'astype':
        targets = [('float', float, 'float64'), ('str', str, None), ('object', object, 'object'), ('float32', np.float32, 'float32'), ('int16', np.int16, 'int16')]
        for kname, k in label_keys(ck, cref, full=False):
            if kname.split('-with')[0] not in ('label', 'label-list', 'label-slice', 'mask', 'absent-label', 'label-slice-absent-end'):
                continue   # astype[] takes column labels (the selector interfaces with Series / ILoc keys are assign / drop / mask)
            csel, cerr = resolve(cref, k, False)
            if cerr == 'lookup' and auto_class(ck, k):
                continue   # see C04 known finding (auto-integer index)
            info = dict(base, route='astype[c]', key=key_repr(k), key_kind=kname)
            ctx.state(('astype', rk, ck, nr, nc, sig, key_repr(k)))
            for tname, t, exp_dt in targets:
                ctx.transition()
                tag = f'frame.astype[c]|index={ck}|{kname}|to={tname}'
                is_bool_array = isinstance(k, np.ndarray) and k.dtype == bool
                if tname in ('float', 'float32', 'int16') and not cerr and any(isinstance(grid[j][0], str) for j in as_positions(csel) if nr):
                    continue
                if tname == 'int16' and not cerr and any(isinstance(grid[j][0], float) for j in as_positions(csel) if nr):
                    continue   # float -> int16 truncates by definition: only int columns get the narrower int target   # text cannot be cast to float: NumPy refuses, nothing to compare
                try:
                    r = f.astype[k](t)
                    got_err = None
                except Exception as e:
                    r, got_err = None, type(e).__name__
                if cerr == 'lookup':
                    if got_err is None:
                        ctx.violation(f'{tag}|accepted-lookup-key', **info)
                    continue
                if cerr:
                    continue
                if got_err:
                    if is_bool_array:
                        ctx.violation(f'frame.astype[c]|bool-array-key|raises-{got_err}', **info)
                    else:
                        ctx.violation(f'{tag}|raises-{got_err}', **info)
                    continue
                cp = as_positions(csel)
                if 0 < len(cp) < nc:
                    ctx.nontriv(('astype', rk, ck, nr, nc, key_repr(k), tname))
                rc = columns_of(r)
                ok = labels_of(r.index) == rlabs and labels_of(r.columns) == clabs and r.name == 'fn'
                for j in range(nc):
                    d = str(rc[j].dtype)
                    if j in cp:
                        if exp_dt is not None and d != exp_dt:
                            ok = False
                        if exp_dt is None and rc[j].dtype.kind != 'U':
                            ok = False
                        if tname == 'float' and isinstance(grid[j][0] if nr else 0, str):
                            pass
                    elif d != dtypes0[j]:
                        ok = False
                    if tname != 'str' or j not in cp:
                        if not all(eqv(a, b) or (tname in ('float', 'float32', 'int16') and j in cp and float(a) == float(b)) for a, b in zip(rc[j], grid[j])):
                            ok = False
                    else:
                        if [str(x) for x in rc[j]] != [str(x) for x in grid[j]]:
                            ok = False
                if not ok:
                    ctx.violation(f'{tag}|result', **info, got=[str(c.dtype) for c in rc], before=dtypes0, addressed=cp)
            unchanged(ctx, 'frame.astype', f, before, info)
        # mapping form and whole-frame form
        if nc:
            ctx.transition(2)
            first = cref.labels[0]
            try:
                if not isinstance(grid[0][0] if nr else 0, str):
                    r = f.astype({first: float})
                    rc = columns_of(r)
                    if str(rc[0].dtype) != 'float64' or [str(c.dtype) for c in rc[1:]] != dtypes0[1:] or not same_grid(grid_of(r), grid):
                        ctx.violation('frame.astype(mapping)|result', **base, got=[str(c.dtype) for c in rc])
                r = f.astype(object)
                if any(str(c.dtype) != 'object' for c in columns_of(r)) or not same_grid(grid_of(r), grid) or labels_of(r.columns) != clabs:
                    ctx.violation('frame.astype(all)|result', **base)
            except Exception as e:
                ctx.violation(f'frame.astype(mapping/all)|raises-{type(e).__name__}', **base, error=repr(e))
    else:  # labels: relabel / rename / insert_before / insert_after
        ctx.state(('labels', rk, ck, nr, nc, sig))
        ctx.nontriv(('labels', rk, ck, nr, nc, sig))
        newr = ['R%d' % i for i in range(nr)]
        newc = ['C%d' % j for j in range(nc)]
        checks = [
            ('relabel(index)', lambda: f.relabel(index=newr), [lk(x) for x in newr], None, 'fn'),
            ('relabel(columns)', lambda: f.relabel(columns=newc), None, [lk(x) for x in newc], 'fn'),
            ('relabel(func)', lambda: f.relabel(columns=lambda x: ('c', x) if not isinstance(x, tuple) else ('c',) + x), None, None, 'fn'),
            ('rename', lambda: f.rename('other'), None, None, 'other'),
            ('rename(index=)', lambda: f.rename(index='ixname'), None, None, 'fn'),
        ]
        for name, call, er, ec, en in checks:
            ctx.transition()
            try:
                r = call()
            except Exception as e:
                ctx.violation(f'frame.{name}|raises-{type(e).__name__}', **base, error=repr(e))
                continue
            gl_r, gl_c = labels_of(r.index), labels_of(r.columns)
            ok = same_grid(grid_of(r), grid) and [str(c.dtype) for c in columns_of(r)] == dtypes0 and r.name == en
            ok = ok and gl_r == (er if er is not None else rlabs)
            if name == 'relabel(func)':
                ok = ok and gl_c == [lk(('c', x) if not isinstance(x, tuple) else ('c',) + x) for x in cref.labels]
            else:
                ok = ok and gl_c == (ec if ec is not None else clabs)
            if name == 'rename(index=)':
                ok = ok and r.index.name == 'ixname' and r.columns.name == f.columns.name
            if not ok:
                ctx.violation(f'frame.{name}|result', **base, got=(gl_r, gl_c, r.name, [str(c.dtype) for c in columns_of(r)]))
        # insertion of a Series / Frame before / after every column label
        ins_s = sf.Series([900 + i for i in range(nr)], index=f.index, name='new')
        ins_f = sf.Frame.from_items((('n1', [800 + i for i in range(nr)]), ('n2', ['t%d' % i for i in range(nr)])), index=f.index)
        for j, clab in enumerate(cref.labels):
            if isinstance(clab, tuple) and ck != 'ih':
                pass
            for where in ('before', 'after'):
                for cname, cont, newlabs, newcols in (('series', ins_s, ['new'], [[900 + i for i in range(nr)]]),
                                                     ('frame', ins_f, ['n1', 'n2'], [[800 + i for i in range(nr)], ['t%d' % i for i in range(nr)]])):
                    ctx.transition()
                    tag = f'frame.insert_{where}|{cname}|index={ck}'
                    try:
                        r = getattr(f, 'insert_' + where)(clab, cont)
                    except Exception as e:
                        ctx.violation(f'{tag}|raises-{type(e).__name__}', **base, key=repr(clab), error=repr(e))
                        continue
                    at = j if where == 'before' else j + 1
                    exp_c = clabs[:at] + [lk(x) for x in newlabs] + clabs[at:]
                    exp_g = grid[:at] + newcols + grid[at:]
                    exp_d = dtypes0[:at] + [None] * len(newlabs) + dtypes0[at:]
                    got_d = [str(c.dtype) for c in columns_of(r)]
                    if (labels_of(r.columns) != exp_c or labels_of(r.index) != rlabs or not same_grid(grid_of(r), exp_g)
                            or any(e is not None and e != g for e, g in zip(exp_d, got_d)) or r.name != 'fn'):
                        ctx.violation(f'{tag}|result', **base, key=repr(clab), got=(labels_of(r.columns), got_d), expected=exp_c)
        unchanged(ctx, 'frame.labels', f, before, base)
    ctx.outcome('frame:' + fam)
    ctx.sample({'family': 'frame', 'interface': fam, 'rows': rk, 'cols': ck, 'shape': (nr, nc), 'layout': sig}, limit=1)


def run_case(case, ctx):
    (run_series if case[0] == 'series' else run_frame)(case, ctx)
