"""C02 Index: unique labels, exact label-to-position bijection.

Modes P + H.  (P) every label sequence of length 0..4 over per-type alphabets
(including sequences with ==-duplicates such as 1 / True / 1.0) through every
construction and derivation route: accepted iff pairwise distinct, and every
accepted index is checked against the list of labels.  (H) every history of
bounded depth over append / extend / cache-materialising reads on grow-only
indices (explicit, auto-integer, datetime, hierarchical), replayed on a fresh
index; each read compares with the model list and a full bijection check follows
the last event.
"""
import datetime
import itertools
import pickle

import numpy as np

import static_frame as sf
from mc.observe import norm
from mc.refsel import lk

PROPERTY_ID = 'C02'
MODE = 'P + H (product enumeration of label sequences x construction/derivation routes; exhaustive event histories on grow-only indices replayed on fresh objects)'
RULE = ('P case = (label type, route): every label sequence of length 0..4 over the alphabet; H case = (GO index kind, first event): every event history of '
        'depth <= D over {append(x), extend(xs), read values/len/positions/loc_to_iloc/iter/contains/copy}; after each history the index is compared with the '
        'model list (length, order of iteration, reversed iteration, values, positions, label -> position for every label, membership of held and absent labels); '
        'non-trivial = sequence / history with >= 2 labels; states = distinct (model labels, pending-cache flag) reached; transitions = events executed')
ASSUMPTIONS = [
    'labels are "the same" when Python == and hash agree (1, True and 1.0 are one label); NaN labels are excluded as the statement says',
    'a rejected construction may raise any ErrorInitIndex subclass; a rejected growth may raise any exception but must leave the index as the model says',
    'the pending-cache flag (_recache) is read only to count distinct states for the evidence file, never to decide a verdict',
]

D = lambda s: np.datetime64(s)
ALPHA = {
    'int': (0, 1, 2, -1),
    'str': ('a', 'b', 'ab', ''),
    'eqmix': (1, True, 1.0, 0, False, 2),          # ==-collisions between bool / int / float
    'float': (0.5, 1.0, -2.5, 3.0),
    'tuple': ((1, 2), (1, 3), (2, 1), 'x'),
    'obj': ('a', 1, None, (1, 2), 2.5),
    'date': (D('2020-01-01'), D('2020-01-02'), D('2019-12-31'), D('2021-01-01')),
    'bigmix': (2 ** 53 + 1, 2 ** 53, -(2 ** 53) - 1, -(2 ** 53), 0.5),   # integers that collapse onto one float64 if the labels are ever held as floats
    'month': (D('2020-01'), D('2020-03'), D('2019-12'), D('2021-01')),
    'year': (D('2020'), D('2022'), D('2019'), D('2021')),
}


def pyset_key(x):
    '''hashable key that follows Python == / hash (1 == True == 1.0)'''
    if isinstance(x, np.datetime64):
        return ('M', str(x))
    if isinstance(x, np.generic):
        x = x.item()
    if isinstance(x, tuple):
        return ('t', tuple(pyset_key(v) for v in x))
    return x


def distinct(labels):
    seen = set()
    for x in labels:
        k = pyset_key(x)
        if k in seen:
            return False
        seen.add(k)
    return True


def same_label(a, b):
    if isinstance(a, np.datetime64) or isinstance(b, np.datetime64):
        if isinstance(a, (str, np.str_)) or isinstance(b, (str, np.str_)):
            return False      # the text of a date is not the date (NumPy would parse it for the comparison)
        try:
            return bool(np.datetime64(a) == np.datetime64(b))
        except Exception:
            return False
    if isinstance(a, (tuple, np.ndarray)) or isinstance(b, (tuple, np.ndarray)):
        ta = tuple(a) if isinstance(a, (tuple, np.ndarray)) else a
        tb = tuple(b) if isinstance(b, (tuple, np.ndarray)) else b
        if not (isinstance(ta, tuple) and isinstance(tb, tuple)) or len(ta) != len(tb):
            return False
        return all(same_label(x, y) for x, y in zip(ta, tb))
    if a is None or b is None:
        return a is None and b is None
    try:
        return bool(a == b)
    except Exception:
        return False


def same_seq(got, exp):
    got, exp = list(got), list(exp)
    return len(got) == len(exp) and all(same_label(g, e) for g, e in zip(got, exp))


def check_index(ctx, tag, ix, labels, absent, info):
    '''full bijection check of ix against the model list'''
    n = len(labels)
    hier = isinstance(ix, sf.IndexHierarchy)
    try:
        if len(ix) != n:
            return ctx.violation(f'{tag}|len', **info, got=len(ix), expected=n)
        it = [tuple(t) if hier else t for t in ix]
        if not same_seq(it, labels):
            return ctx.violation(f'{tag}|iteration-order', **info, got=it, expected=labels)
        rv = [tuple(t) if hier else t for t in reversed(ix)]
        if not same_seq(rv, labels[::-1]):
            return ctx.violation(f'{tag}|reversed-iteration', **info, got=rv, expected=labels[::-1])
        vals = [tuple(r) for r in ix.values] if hier else list(ix.values)
        if not same_seq(vals, labels):
            return ctx.violation(f'{tag}|values', **info, got=vals, expected=labels)
        if list(ix.positions) != list(range(n)):
            return ctx.violation(f'{tag}|positions', **info, got=list(ix.positions))
        for i, lab in enumerate(labels):
            p = ix.loc_to_iloc(lab)
            if not isinstance(p, (int, np.integer)) or int(p) != i:
                return ctx.violation(f'{tag}|loc_to_iloc', **info, label=lab, got=repr(p), expected=i)
            if lab not in ix:
                return ctx.violation(f'{tag}|held-label-not-contained', **info, label=lab)
            g = ix.iloc[i]
            if not same_label(tuple(g) if hier and not isinstance(g, tuple) else g, lab):
                return ctx.violation(f'{tag}|iloc', **info, position=i, got=repr(g), expected=lab)
        if hier and labels:
            # a key with more or fewer components than the depth is no label of this hierarchy
            absent = list(absent) + [tuple(labels[0]) + (labels[0][-1],), tuple(labels[-1]) + (0, 0)] + ([tuple(labels[0][:-1])] if len(labels[0]) > 2 else [])
            # every combination of components that each occur at their depth but not together (ragged fan-out), and integer components just outside those held
            try:
                per_depth = [list({pyset_key(t[d]): t[d] for t in labels}.values()) for d in range(len(labels[0]))]
                held = {tuple(pyset_key(x) for x in t) for t in labels}
                combos = [c for c in itertools.islice(itertools.product(*per_depth), 400) if tuple(pyset_key(x) for x in c) not in held][:40]
                last = [t[-1] for t in labels if isinstance(t[-1], (int, np.integer)) and not isinstance(t[-1], (bool, np.bool_))]
                if last:
                    for t in labels[:3] + labels[-1:]:
                        combos += [tuple(t[:-1]) + (int(max(last)) + 1,), tuple(t[:-1]) + (int(max(last)) + 6,), tuple(t[:-1]) + (int(min(last)) - 1,)]
                absent = absent + combos
            except TypeError:
                pass
        # datetime indices: an instant given at a finer resolution (text, date / datetime object, datetime64) inside a held period is not a held label
        if isinstance(ix, sf.Index) and ix.dtype.kind == 'M' and labels:
            import datetime as _dt
            unit = np.datetime_data(ix.dtype)[0]
            l0 = np.datetime64(labels[0], unit)
            finer = []
            if unit == 'Y':
                y = int(str(l0))
                finer = [f'{y}-03', f'{y}-03-15', _dt.date(y, 3, 15), np.datetime64(f'{y}-03-15')]
            elif unit == 'M':
                finer = [f'{l0}-15', _dt.date(int(str(l0)[:4]), int(str(l0)[5:7]), 15), np.datetime64(f'{l0}-15')]
            elif unit == 'D':
                finer = [f'{l0}T10:30:00', _dt.datetime(int(str(l0)[:4]), int(str(l0)[5:7]), int(str(l0)[8:10]), 10, 30), np.datetime64(f'{l0}T10:30:00')]
            for a in finer:
                if a in ix:
                    return ctx.violation(f'{tag}|finer-resolution-instant-contained', **info, key=repr(a), labels=[str(x) for x in labels])
        for a in absent:
            if any(pyset_key(a) == pyset_key(l) for l in labels):
                continue
            if a in ix:
                return ctx.violation(f'{tag}|absent-label-contained', **info, label=a)
            try:
                p = ix.loc_to_iloc(a)
                return ctx.violation(f'{tag}|absent-label-has-position', **info, label=a, got=repr(p))
            except Exception:
                pass
        if not distinct(labels):
            return ctx.violation(f'{tag}|holds-duplicate-labels', **info, labels=labels)
    except Exception as e:
        return ctx.violation(f'{tag}|check-raises-{type(e).__name__}', **info, error=repr(e))


# ------------------------------------------------------------------ P: construction routes
def obj_array(labels):
    a = np.empty(len(labels), dtype=object)
    for i, x in enumerate(labels):
        a[i] = x
    return a


def index_cls(kind):
    return {'date': sf.IndexDate, 'month': sf.IndexYearMonth, 'year': sf.IndexYear}.get(kind, sf.Index)


ROUTES = {
    'constructor(list)': lambda kind, labs: index_cls(kind)(list(labs)),
    'constructor(tuple)': lambda kind, labs: index_cls(kind)(tuple(labs)),
    'constructor(generator)': lambda kind, labs: index_cls(kind)(x for x in labs),
    'constructor(object array)': lambda kind, labs: index_cls(kind)(obj_array(labs)) if kind not in ('date', 'month', 'year') else index_cls(kind)(np.array(labs, dtype={'date': 'datetime64[D]', 'month': 'datetime64[M]', 'year': 'datetime64[Y]'}[kind])),
    'constructor(dict keys)': lambda kind, labs: index_cls(kind)(dict.fromkeys(labs).keys()) if distinct(labs) else index_cls(kind)(list(labs)),
    'from_labels': lambda kind, labs: index_cls(kind).from_labels(list(labs)),
    'constructor(Index)': lambda kind, labs: index_cls(kind)(index_cls(kind)(list(labs))),
    'GO constructor': lambda kind, labs: {'date': sf.IndexDateGO, 'month': sf.IndexYearMonthGO, 'year': sf.IndexYearGO}.get(kind, sf.IndexGO)(list(labs)),
    'Series index': lambda kind, labs: sf.Series(range(len(labs)), index=index_cls(kind)(list(labs)) if kind in ('date', 'month', 'year') else list(labs)).index,
    'Frame columns': lambda kind, labs: sf.Frame(np.zeros((1, len(labs))), columns=index_cls(kind)(list(labs)) if kind in ('date', 'month', 'year') else list(labs)).columns,
    'pickle': lambda kind, labs: pickle.loads(pickle.dumps(index_cls(kind)(list(labs)))),
    'copy': lambda kind, labs: index_cls(kind)(list(labs)).copy(),
    'rename': lambda kind, labs: index_cls(kind)(list(labs)).rename('nm'),
}

DERIVE = {
    # name -> (func(index) -> index, func(labels) -> expected labels)
    'iloc[::-1]': (lambda ix: ix.iloc[::-1], lambda L: L[::-1]),
    'iloc[1:]': (lambda ix: ix.iloc[1:], lambda L: L[1:]),
    'iloc[[last,0]]': (lambda ix: ix.iloc[[len(ix) - 1, 0]] if len(ix) > 1 else ix.iloc[[0]], lambda L: [L[-1], L[0]] if len(L) > 1 else [L[0]]),
    'iloc[mask]': (lambda ix: ix.iloc[np.array([i % 2 == 0 for i in range(len(ix))])], lambda L: L[::2]),
    'drop.iloc[0]': (lambda ix: ix.drop.iloc[0], lambda L: L[1:]),
    'drop.loc[last]': (lambda ix: ix.drop.loc[[ix.values[-1]]] if ix.depth == 1 else ix.drop.iloc[-1], lambda L: L[:-1]),
    'roll(1)': (lambda ix: ix.roll(1), lambda L: L[-1:] + L[:-1]),
    'sort': (lambda ix: ix.sort(), None),
    'sort(desc)': (lambda ix: ix.sort(ascending=False), None),
    'union(self)': (lambda ix: ix.union(ix), lambda L: L),
    'intersection(self)': (lambda ix: ix.intersection(ix), lambda L: L),
    'difference(first)': (lambda ix: ix.difference(ix.iloc[:1]), None),
    'head(2)': (lambda ix: ix.head(2), lambda L: L[:2]),
    'tail(2)': (lambda ix: ix.tail(2), lambda L: L[-2:]),
    'GO->static': (lambda ix: (lambda go: go._IMMUTABLE_CONSTRUCTOR(go))(ix._MUTABLE_CONSTRUCTOR(ix)), lambda L: L),
}


def scope(tier):
    return dict(maxlen=3 if tier == 'quick' else 4, depth=3 if tier == 'quick' else 4)


def cases(tier):
    sc = scope(tier)
    for kind in ALPHA:
        for route in ROUTES:
            yield ('construct', kind, route, sc['maxlen'])
        yield ('derive', kind, sc['maxlen'])
    yield ('auto', sc['maxlen'] + 2)
    yield ('hier_construct', tier)
    for gokind in GO_KINDS:
        events = go_events(gokind)
        for first in range(len(events)):
            yield ('history', gokind, first, sc['depth'])


def universe(tier):
    sc = scope(tier)
    return dict(sc, alphabets={k: [repr(x) for x in v] for k, v in ALPHA.items()}, routes=list(ROUTES), derivations=list(DERIVE), go_kinds=list(GO_KINDS),
                events_per_kind={k: len(go_events(k)) for k in GO_KINDS})


def is_init_error(e):
    return isinstance(e, sf.ErrorInitIndex)


def run_construct(case, ctx):
    _, kind, route, maxlen = case
    alpha = ALPHA[kind]
    fn = ROUTES[route]
    for n in range(0, maxlen + 1):
        for labs in itertools.product(alpha, repeat=n):
            labs = list(labs)
            if not labs and route in ('Frame columns', 'Series index'):
                continue   # an empty label list means "no labels given": an auto-integer index results (see the auto family)
            ok = distinct(labs)
            ctx.state((kind, tuple(map(repr, labs))))
            ctx.transition()
            if n >= 2:
                ctx.nontriv((kind, route, tuple(map(repr, labs))))
            info = dict(kind=kind, route=route, labels=labs)
            try:
                ix = fn(kind, labs)
            except Exception as e:
                if ok:
                    ctx.violation(f'construct|{route}|{kind}|valid-labels-rejected|{type(e).__name__}', **info, error=repr(e))
                elif not is_init_error(e):
                    ctx.violation(f'construct|{route}|{kind}|duplicates-rejected-with-{type(e).__name__}', **info, error=repr(e))
                ctx.outcome('rejected')
                continue
            ctx.outcome('accepted')
            if not ok:
                ctx.violation(f'construct|{route}|{kind}|duplicate-labels-accepted', **info, got=list(ix.values))
                continue
            absent = [a for a in alpha if not any(pyset_key(a) == pyset_key(l) for l in labs)] + ['__absent__']
            check_index(ctx, f'construct|{route}|{kind}', ix, labs, absent if kind not in ('date', 'month', 'year') else absent[:-1] + [D('1999-01-01').astype({'date': 'datetime64[D]', 'month': 'datetime64[M]', 'year': 'datetime64[Y]'}[kind])], info)
    ctx.sample({'family': 'construct', 'kind': kind, 'route': route}, limit=1)


def run_derive(case, ctx):
    _, kind, maxlen = case
    alpha = ALPHA[kind]
    for n in range(1, maxlen + 1):
        for labs in itertools.permutations(alpha, n):
            labs = list(labs)
            if not distinct(labs):
                continue
            base = index_cls(kind)(labs if kind != 'tuple' and kind != 'obj' else obj_array(labs))
            ctx.state(('derive', kind, tuple(map(repr, labs))))
            for name, (fn, exp_fn) in DERIVE.items():
                ctx.transition()
                if n >= 2:
                    ctx.nontriv(('derive', kind, name, tuple(map(repr, labs))))
                info = dict(kind=kind, derivation=name, labels=labs)
                try:
                    ix = fn(base)
                except Exception as e:
                    if name.startswith('sort') and kind in ('obj', 'tuple', 'eqmix'):
                        continue   # unorderable mixed labels
                    ctx.violation(f'derive|{name}|{kind}|raises-{type(e).__name__}', **info, error=repr(e))
                    continue
                got = list(ix.values) if ix.depth == 1 else [tuple(r) for r in ix.values]
                ms = lambda xs: sorted(repr(lk(x)) if not isinstance(x, (bool, np.bool_)) else repr(('num', float(x))) for x in xs)
                if exp_fn is None:
                    if name.startswith('sort'):
                        exp = None
                        if ms(got) != ms(labs):
                            ctx.violation(f'derive|{name}|{kind}|label-set-changed', **info, got=got)
                            continue
                    else:  # difference(first)
                        if ms(got) != ms(labs[1:]):
                            ctx.violation(f'derive|{name}|{kind}|label-set', **info, got=got, expected=labs[1:])
                            continue
                    exp = got
                else:
                    exp = exp_fn(labs)
                absent = [a for a in alpha if not any(pyset_key(a) == pyset_key(l) for l in exp)]
                check_index(ctx, f'derive|{name}|{kind}', ix, exp, absent, info)
            # the source is unchanged by every derivation
            check_index(ctx, f'derive-source|{kind}', base, labs, [], dict(kind=kind, labels=labs))
    ctx.sample({'family': 'derive', 'kind': kind}, limit=1)


def run_auto(case, ctx):
    _, nmax = case
    for n in range(0, nmax + 1):
        for name, mk in (('Series()', lambda: sf.Series(np.arange(n)).index), ('Frame()', lambda: sf.Frame(np.zeros((n, 2))).index),
                         ('Frame().columns', lambda: sf.Frame(np.zeros((1, n))).columns), ('IndexAutoFactory.from_optional_constructor', lambda: sf.IndexAutoFactory.from_optional_constructor(n, default_constructor=sf.Index)),
                         ('Index(range, loc_is_iloc)', lambda: sf.Index(range(n), loc_is_iloc=True)), ('IndexGO(range, loc_is_iloc)', lambda: sf.IndexGO(range(n), loc_is_iloc=True))):
            ctx.transition()
            ctx.state(('auto', name, n))
            if n >= 2:
                ctx.nontriv(('auto', name, n))
            try:
                ix = mk()
            except Exception as e:
                ctx.violation(f'auto|{name}|raises-{type(e).__name__}', n=n, error=repr(e))
                continue
            check_index(ctx, f'auto|{name}', ix, list(range(n)), [n, n + 5, 'x', 1.5], dict(route=name, n=n))
            # derived from an auto index: labels must travel with their positions
            if n >= 2:
                for dn, key, exp in (('iloc[::-1]', slice(None, None, -1), list(range(n))[::-1]), ('iloc[::2]', slice(None, None, 2), list(range(n))[::2]),
                                     ('iloc[1:]', slice(1, None), list(range(n))[1:]), ('iloc[[last,0]]', [n - 1, 0], [n - 1, 0])):
                    ctx.transition()
                    try:
                        d = ix.iloc[key]
                        check_index(ctx, f'auto-derived|{dn}', d, exp, [n, -1, n + 5] + [x for x in range(n) if x not in exp], dict(route=name, n=n, derivation=dn))
                    except Exception as e:
                        ctx.violation(f'auto-derived|{dn}|raises-{type(e).__name__}', n=n, route=name, error=repr(e))
    ctx.sample({'family': 'auto', 'nmax': nmax}, limit=1)


def tree_ordered(tuples):
    '''are the tuples a tree in the given order (same outer prefix contiguous at every depth) and pairwise distinct?'''
    if not distinct(tuples):
        return False
    depth = len(tuples[0]) if tuples else 0
    for d in range(1, depth):
        seen = []
        for t in tuples:
            p = tuple(pyset_key(x) for x in t[:d])
            if seen and p != seen[-1] and p in seen:
                return False
            seen.append(p)
    return True


def run_hier_construct(case, ctx):
    _, tier = case
    outers, inners = ('a', 'b'), (1, 2)
    pool2 = [(o, i) for o in outers for i in inners]
    pool3 = [(o, i, z) for o in outers for i in (1, 2) for z in ('x',)] + [('a', 1, 'y')]
    maxlen = 4 if tier == 'quick' else 5
    for pool in (pool2, pool3):
        for n in range(1, maxlen + 1):
            for tuples in itertools.product(pool, repeat=n) if n <= 3 else itertools.permutations(pool, n):
                tuples = list(tuples)
                ok = tree_ordered(tuples)
                ctx.state(('hier', tuple(tuples)))
                for route, fn in (('from_labels', lambda t: sf.IndexHierarchy.from_labels(t)), ('from_labels(GO)', lambda t: sf.IndexHierarchyGO.from_labels(t)),
                                  ('constructor(IH)', lambda t: sf.IndexHierarchy(sf.IndexHierarchy.from_labels(t))),
                                  ('pickle', lambda t: pickle.loads(pickle.dumps(sf.IndexHierarchy.from_labels(t)))),
                                  ('Series index', lambda t: sf.Series(range(len(t)), index=sf.IndexHierarchy.from_labels(t)).index)):
                    ctx.transition()
                    if n >= 2:
                        ctx.nontriv(('hier', route, tuple(tuples)))
                    info = dict(route=route, tuples=tuples)
                    try:
                        ix = fn(tuples)
                    except Exception as e:
                        if ok:
                            ctx.violation(f'hier|{route}|valid-tree-rejected|{type(e).__name__}', **info, error=repr(e))
                        elif not is_init_error(e):
                            ctx.violation(f'hier|{route}|non-tree-rejected-with-{type(e).__name__}', **info, error=repr(e))
                        continue
                    if not ok:
                        ctx.violation(f'hier|{route}|non-tree-or-duplicate-accepted', **info, got=[tuple(t) for t in ix])
                        continue
                    absent = [t for t in pool if t not in tuples] + [('z', 9) + (('q',) if len(pool[0]) == 3 else ())]
                    check_index(ctx, f'hier|{route}', ix, tuples, absent, info)
                    if route == 'from_labels' and len(pool[0]) == 3:
                        for realised in (False, True):
                            for cname, count in (('level_drop(1)', 1), ('level_drop(2)', 2), ('level_drop(-1)', -1), ('level_drop(-2)', -2)):
                                src = sf.IndexHierarchy.from_labels(tuples)
                                if realised:
                                    src.values
                                if count > 0:
                                    exp_d = [t[count:] if len(t[count:]) > 1 else t[count] for t in tuples]
                                    valid = distinct(exp_d) and (count == 2 or tree_ordered(exp_d))
                                    # the implementation joins the subtrees of different former parents side by side and refuses when their labels at the new outer depth
                                    # repeat (a refusal, not a wrong index): only drops whose intermediate outer labels stay distinct across parents are demanded
                                    for c_ in range(1, count + 1):
                                        firsts = []
                                        for t in tuples:
                                            key_ = (t[:c_], t[c_]) if c_ < len(t) else None
                                            if key_ and key_ not in firsts:
                                                firsts.append(key_)
                                        if len({k_[1] for k_ in firsts}) < len(firsts):
                                            valid = None
                                else:
                                    exp_d = []
                                    for t in tuples:
                                        p_ = t[:count] if len(t[:count]) > 1 else t[0]
                                        if not exp_d or exp_d[-1] != p_:
                                            exp_d.append(p_)       # removing inner depths collapses the rows of one parent (documented)
                                    valid = True
                                ctx.transition()
                                info3 = dict(route=cname, source=tuples, realised=realised)
                                try:
                                    dd = src.level_drop(count)
                                except Exception as e:
                                    if valid:
                                        ctx.violation(f'hier|{cname}|raises-{type(e).__name__}', **info3, error=repr(e))
                                    continue
                                if valid is None:
                                    continue    # accepted although refusable: then checked below only if it is a proper index
                                if not valid:
                                    ctx.violation(f'hier|{cname}|duplicate-or-non-tree-result-accepted', **info3, got=[tuple(x) if isinstance(x, (tuple, np.ndarray)) else x for x in dd])
                                    continue
                                check_index(ctx, f'hier|{cname}', dd, exp_d, [('zz', 9)] if isinstance(exp_d[0], tuple) else ['zz'], info3)
                    if route == 'from_labels' and n >= 2 and len(set(tuples)) == n:
                        # derived by re-ordering rows (roll, positional and label lists): the result is checked as an index of its own when the new
                        # order is a tree, and must be refused (never silently accepted with diverging views) when it is not
                        for perm in itertools.permutations(range(n)):
                            if list(perm) == list(range(n)):
                                continue
                            new_order = [tuples[i] for i in perm]
                            routes2 = [('iloc[list]', lambda: ix.iloc[list(perm)]), ('loc[list]', lambda: ix.loc[new_order])]
                            k = perm[0]
                            if list(perm) == [(k + i) % n for i in range(n)]:
                                routes2.append(('roll', lambda: ix.roll(-k)))
                            for r2, fn2 in routes2:
                                ctx.transition()
                                info2 = dict(route=r2, source=tuples, order=new_order)
                                try:
                                    d2 = fn2()
                                except Exception as e:
                                    if tree_ordered(new_order):
                                        ctx.violation(f'hier|derive-{r2}|valid-tree-rejected|{type(e).__name__}', **info2, error=repr(e))
                                    continue
                                if not tree_ordered(new_order):
                                    # accepted although the order is not a tree: tolerated only if the index it gives is coherent with that order
                                    check_index(ctx, f'hier|derive-{r2}|non-tree-order', d2, new_order, absent, info2)
                                else:
                                    check_index(ctx, f'hier|derive-{r2}', d2, new_order, absent, info2)
    # product / tree / index-items / level add / drop / flat routes on a fixed family
    for outs, ins in ((('a', 'b'), (1, 2)), (('b', 'a'), (2, 1, 3)), (('a',), (1,))):
        exp = [(o, i) for o in outs for i in ins]
        checks = [
            ('from_product', lambda: sf.IndexHierarchy.from_product(outs, ins), exp),
            ('from_tree', lambda: sf.IndexHierarchy.from_tree({o: list(ins) for o in outs}), exp),
            ('from_index_items', lambda: sf.IndexHierarchy.from_index_items((o, sf.Index(ins)) for o in outs), exp),
            ('level_add', lambda: sf.IndexHierarchy.from_product(outs, ins).level_add('L'), [('L',) + t for t in exp]),
            ('level_drop(1)', lambda: sf.IndexHierarchy.from_labels([('L',) + t for t in exp]).level_drop(1), exp),
            ('flat', lambda: sf.IndexHierarchy.from_product(outs, ins).flat(), exp),
            ('Index.level_add', lambda: sf.Index(ins).level_add('L'), [('L', i) for i in ins]),
            ('roll(1)', lambda: sf.IndexHierarchy.from_product(outs, ins).roll(len(ins)), exp[-len(ins):] + exp[:-len(ins)]),
            ('iloc[::-1]', lambda: sf.IndexHierarchy.from_product(outs, ins).iloc[::-1], exp[::-1]),
            ('sort', lambda: sf.IndexHierarchy.from_product(outs, ins).sort(), sorted(exp)),
            ('astype', lambda: sf.IndexHierarchy.from_product(outs, ins).astype[1](float), [(o, float(i)) for o, i in exp]),
            ('rename', lambda: sf.IndexHierarchy.from_product(outs, ins).rename('q'), exp),
        ]
        for name, fn, e in checks:
            ctx.transition()
            ctx.nontriv(('hier-route', name, outs, ins))
            try:
                ix = fn()
            except Exception as ex:
                ctx.violation(f'hier|{name}|raises-{type(ex).__name__}', outers=outs, inners=ins, error=repr(ex))
                continue
            check_index(ctx, f'hier|{name}', ix, e, [('z', 9) if len(e[0]) == 2 else ('z', 9, 9)], dict(route=name, outers=outs, inners=ins))
    ctx.sample({'family': 'hier_construct'}, limit=1)


# ------------------------------------------------------------------ H: grow-only histories
GO_KINDS = {
    'IndexGO-str': (lambda: sf.IndexGO(('a', 'b')), ['a', 'b'], ['c', 'a', 'd', 1]),
    'IndexGO-empty': (lambda: sf.IndexGO(()), [], ['a', 'b', 'a', 2]),
    'IndexGO-auto': (lambda: sf.IndexGO(range(2), loc_is_iloc=True), [0, 1], [2, 3, 0, 'x', 5]),
    # a float label equal to the next position: a label like any other, not the continuation of the automatic labels
    'IndexGO-auto-float-label': (lambda: sf.IndexGO(range(2), loc_is_iloc=True), [0, 1], [2.0, 2, 3.0, 'x']),
    'FrameGO-auto-columns': (lambda: sf.FrameGO(np.zeros((1, 2))), [0, 1], [2.0, 2, 'x']),
    'IndexGO-auto-empty': (lambda: sf.IndexAutoFactory.from_optional_constructor(0, default_constructor=sf.IndexGO), [], [0, 1, 'x', 0]),
    'IndexDateGO': (lambda: sf.IndexDateGO(('2020-01-01',)), [D('2020-01-01')], [D('2020-01-02'), D('2020-01-01'), D('2019-01-01')]),
    'IndexHierarchyGO': (lambda: sf.IndexHierarchyGO.from_labels([('a', 1), ('a', 2)]), [('a', 1), ('a', 2)], [('a', 3), ('b', 1), ('a', 1), ('b', 2), ('c', 1)]),
    'IndexHierarchyGO-empty': (lambda: sf.IndexHierarchyGO.from_labels((), depth_reference=2), [], [('a', 1), ('a', 2), ('b', 1), ('a', 1)]),
    'IndexHierarchyGO-depth3': (lambda: sf.IndexHierarchyGO.from_labels([('A', 'a', 1)]), [('A', 'a', 1)], [('A', 'a', 2), ('A', 'b', 1), ('A', 'a', 1), ('B', 'a', 1), ('A', 'b', 2)]),
    'FrameGO-columns': (lambda: sf.FrameGO(np.zeros((1, 2)), columns=('a', 'b')), ['a', 'b'], ['c', 'a', 'd']),
}
READS = ['values', 'len', 'positions', 'iter', 'loc_to_iloc(last)', 'contains(all)', 'copy', 'reversed', 'loc_to_iloc(slice)']


def go_events(kind):
    _, _, pool = GO_KINDS[kind]
    ev = [('append', x) for x in pool]
    ev += [('extend', (pool[0], pool[1])), ('extend', (pool[1], pool[0], pool[1])), ('extend', ())]
    ev += [('read', r) for r in READS]
    ev += [('derive', r) for r in ('static-constructor', 'Series(index=)', 'iloc[:]', 'deepcopy+append', 'copy+append')]
    return ev


def apply_event(ctx, kind, subject, model, ev, info, derived):
    '''apply one event to the real subject and the model; read events compare on the spot. Returns False on violation.'''
    ix = subject.columns if kind.startswith('FrameGO-') else subject
    hier = kind.startswith('IndexHierarchyGO')
    op, arg = ev
    if op == 'append':
        dup = any(pyset_key(arg) == pyset_key(l) for l in model)
        tree_bad = hier and not tree_ordered(model + [arg])
        try:
            if kind.startswith('FrameGO-'):
                subject[arg] = np.zeros(1)
            else:
                ix.append(arg)
            ok = True
        except Exception as e:
            ok = False
        if ok and (dup or tree_bad):
            ctx.violation(f'{kind}|append|{"duplicate" if dup else "non-tree"}-accepted', **info, value=arg)
            return False
        if not ok and not (dup or tree_bad):
            ctx.violation(f'{kind}|append|valid-label-rejected', **info, value=arg)
            return False
        if ok:
            model.append(arg)
    elif op == 'extend':
        vals = list(arg)
        bad = not distinct(model + vals) or (hier and vals and not tree_ordered(model + vals))
        try:
            if kind.startswith('FrameGO-'):
                subject.extend_items((v, np.zeros(1)) for v in vals)
            elif hier:
                if vals:
                    ix.extend(sf.IndexHierarchy.from_labels(vals))
            else:
                ix.extend(vals)
            ok = True
        except Exception:
            ok = False
        if hier and vals and not tree_ordered(vals):
            return True   # the argument itself cannot be built: nothing reached the subject
        if hier and vals and not ok and any(pyset_key(v[0]) == pyset_key(m[0]) for v in vals for m in model):
            return True   # extending under an outer label that already exists is refused by this version: a refusal, checked to be side-effect free below
        if ok and bad:
            ctx.violation(f'{kind}|extend|invalid-labels-accepted', **info, values=vals)
            return False
        if not ok and not bad:
            ctx.violation(f'{kind}|extend|valid-labels-rejected', **info, values=vals)
            return False
        if ok:
            model.extend(vals)
        elif kind.startswith('FrameGO-'):
            # extend_items applies the valid prefix before the failing item (recorded under C09); follow the real object so that the
            # bijection itself can still be checked
            model[:] = [x for x in ix.values.tolist()]
    elif op == 'derive':
        # an index derived now must keep describing the labels of now, whatever the source does later (checked after the history)
        try:
            if arg == 'static-constructor':
                d = ix._IMMUTABLE_CONSTRUCTOR(ix)
            elif arg in ('deepcopy+append', 'copy+append'):
                # a grow-only copy that is itself grown: from now on the two have separate lives
                import copy as _copy
                if kind.startswith('FrameGO-'):
                    return True
                d = _copy.deepcopy(ix) if arg.startswith('deepcopy') else ix.copy()
                own = {'IndexHierarchyGO': ('zz', 7), 'IndexHierarchyGO-depth3': ('ZZ', 'z', 7), 'IndexDateGO': D('2031-01-01')}.get(kind, 'OWN' if not kind.startswith('IndexGO-auto') else 10 ** 6)
                d.append(own)
                derived.append((arg, d, list(model) + [own]))
                return True
            elif arg == 'Series(index=)':
                d = sf.Series(np.arange(len(model)), index=ix).index
            else:
                d = ix.iloc[:]
        except Exception as e:
            ctx.violation(f'{kind}|derive-{arg}|raises-{type(e).__name__}', **info, error=repr(e))
            return False
        derived.append((arg, d, list(model)))
    else:
        try:
            if arg == 'values':
                got = [tuple(r) for r in ix.values] if hier else list(ix.values)
                good = same_seq(got, model)
            elif arg == 'len':
                got = len(ix)
                good = got == len(model)
            elif arg == 'positions':
                got = list(ix.positions)
                good = got == list(range(len(model)))
            elif arg == 'iter':
                got = [tuple(t) if hier else t for t in ix]
                good = same_seq(got, model)
            elif arg == 'reversed':
                got = [tuple(t) if hier else t for t in reversed(ix)]
                good = same_seq(got, model[::-1])
            elif arg == 'loc_to_iloc(last)':
                if not model:
                    return True
                got = ix.loc_to_iloc(model[-1])
                good = isinstance(got, (int, np.integer)) and int(got) == len(model) - 1
            elif arg == 'loc_to_iloc(slice)':
                # a slice / partial key as the very first read after growth: label slices, a year slice on dates, an outer label of a hierarchy
                if not model:
                    return True
                n_ = len(model)
                if hier:
                    key = sf.HLoc[model[-1][0]]
                    exp_pos = [i for i, l in enumerate(model) if l[0] == model[-1][0]]
                elif kind == 'IndexDateGO':
                    from mc.refsel import RefDateAxis
                    y = str(model[-1])[:4]
                    key = slice(y, y)
                    exp_pos = RefDateAxis(list(model)).loc(key)[1]
                else:
                    key = slice(model[0], model[-1])
                    exp_pos = list(range(n_))
                r_ = ix.loc_to_iloc(key)
                got = list(range(n_))[r_] if isinstance(r_, slice) else ([int(r_)] if isinstance(r_, (int, np.integer)) else [int(x) for x in r_])
                good = got == list(exp_pos)
            elif arg == 'contains(all)':
                got = [l in ix for l in model]
                good = all(got)
            else:  # copy
                c = ix.copy()
                got = [tuple(t) if hier else t for t in c]
                good = same_seq(got, model) and len(c) == len(model)
        except Exception as e:
            ctx.violation(f'{kind}|read-{arg}|raises-{type(e).__name__}', **info, error=repr(e))
            return False
        if not good:
            ctx.violation(f'{kind}|read-{arg}|disagrees-with-model', **info, got=got, model=list(model))
            return False
    return True


def run_history(case, ctx):
    _, kind, first, depth = case
    mk, init, pool = GO_KINDS[kind]
    events = go_events(kind)
    absent_extra = ['__absent__', 99] if not kind.startswith('IndexHierarchyGO') else ([('z', 9)] if kind == 'IndexHierarchyGO' else [('z', 'z', 9)])
    if kind == 'IndexDateGO':
        absent_extra = [D('1999-01-01')]

    def explore(hist):
        subject = mk()
        model = list(init)
        derived = []
        info = dict(kind=kind, history=[events[i] for i in hist])
        for i in hist:
            ctx.transition()
            if not apply_event(ctx, kind, subject, model, events[i], info, derived):
                return False
        ix = subject.columns if kind.startswith('FrameGO-') else subject
        ctx.state((kind, tuple(map(repr, model)), bool(getattr(ix, '_recache', False))))
        if len(model) >= 2:
            ctx.nontriv((kind, tuple(hist)))
        absent = [p for p in pool if not any(pyset_key(p) == pyset_key(l) for l in model)] + absent_extra
        before = ctx.violation_count
        check_index(ctx, f'{kind}|after-history', ix, list(model), absent, info)
        for route, d, labels_then in derived:
            later = [l for l in model if not any(pyset_key(l) == pyset_key(x) for x in labels_then)]
            check_index(ctx, f'{kind}|derived-{route}-after-source-grew', d, labels_then, later + absent, info)
        if kind.startswith('FrameGO-') and subject.shape[1] != len(model):
            ctx.violation(f'{kind}|columns-and-data-out-of-step', **info, shape=subject.shape, labels=len(model))
        return ctx.violation_count == before

    def rec(hist):
        if not explore(hist):
            return    # a violated history is not extended (its extensions would repeat the report)
        if len(hist) < depth:
            for j in range(len(events)):
                # two reads in a row after another read add nothing new: prune read-read-read
                if len(hist) >= 2 and events[j][0] == 'read' and events[hist[-1]][0] == 'read' and events[hist[-2]][0] == 'read':
                    continue
                rec(hist + [j])
    rec([first])
    ctx.outcome('history:' + kind)
    ctx.sample({'family': 'history', 'kind': kind, 'first_event': repr(events[first]), 'depth': depth, 'events': len(events)}, limit=1)


def run_case(case, ctx):
    {'construct': run_construct, 'derive': run_derive, 'auto': run_auto, 'hier_construct': run_hier_construct, 'history': run_history}[case[0]](case, ctx)
