"""C18 Parallel execution gives the same answer as sequential execution.

Mode S.  The pool classes static-frame looks up as module globals (node_iter,
batch, store_zip) are replaced by mc.sched's controlled executor; for every
configuration (container, iterator interface, values/items form, max_workers,
chunksize, threads/processes) EVERY feasible task completion order is enumerated
and the result must equal the sequential result; with one failing task the call
must raise, never return a shorter or shifted result; apply_except must drop
exactly the failing labels.  A free-running pass drives the real thread and
process pools with per-task gates that force chosen completion orders and must
agree with the scheduled pass.
"""
import itertools
import math
import os
import threading

import numpy as np

import static_frame as sf
import static_frame.core.batch as batch_mod
import static_frame.core.node_iter as node_iter_mod
import static_frame.core.store_zip as store_zip_mod
from mc import sched
from mc.observe import snap
from mc.props.c17 import workdir

PROPERTY_ID = 'C18'
MODE = 'S (schedule enumeration under a controlled executor substituted for ThreadPoolExecutor / ProcessPoolExecutor; real pools with gated completion orders as validation)'
RULE = ('case = (family, interface / operation, container); for each (max_workers, chunksize, threads|processes) every feasible completion order of the tasks is executed '
        '(DFS over scheduler choices, default = submission order); result snapshot must equal the sequential apply / Batch result; '
        'non-trivial = execution whose completion order is not the submission order; states = distinct (configuration, completion order) pairs; transitions = pool executions; '
        'traces_validated_against_impl counts executions on the real pools with forced orders')
ASSUMPTIONS = [
    'tasks are pure functions of their argument: the scheduler owns completion order, not pre-emption inside a task',
    'the controlled executor implements submit / map / shutdown with the semantics of concurrent.futures (map consumes its iterables eagerly; process pools chunk map items); '
    'its faithfulness is checked by the gated real-pool pass for n <= 3 tasks',
    'which exception class surfaces for a failing task is compared only as "raises"',
]

MODS = (node_iter_mod, batch_mod, store_zip_mod)
DEV_BOUND = 3
CAP_CTX = [None, None]


def explore_capped(run, limit):
    '''sched.explore with an execution cap; a configuration that reaches the cap is counted, so that the evidence does not call the run exhaustive'''
    n = 0
    for item in sched.explore(run, limit=limit):
        n += 1
        yield item
    if n >= limit and CAP_CTX[0] is not None:
        CAP_CTX[0].count('configurations-that-reached-the-execution-cap')
        CAP_CTX[0].extra['capped-example'] = f'{CAP_CTX[1]!r} cap={limit}'



def containers():
    s = sf.Series([3, 1, 4, 1], index=('a', 'b', 'c', 'd'), name='s')
    s3 = sf.Series([3, 1, 4], index=('a', 'b', 'c'), name='s')
    f = sf.Frame.from_records([[1, 2.5, 'x'], [3, 4.5, 'y'], [1, 6.5, 'z']], index=('r0', 'r1', 'r2'), columns=('p', 'q', 't'), name='f')
    f2 = sf.Frame(np.arange(12).reshape(3, 4), index=('r0', 'r1', 'r2'), columns=('a', 'b', 'c', 'd'), name='f2')
    return {'series4': s, 'series3': s3, 'frame3x3': f, 'frame3x4-2d': f2}


def f_elem(x):
    return x * 2 if not isinstance(x, str) else x + x


def f_elem_items(pair):
    k, x = pair
    return (str(k), f_elem(x))


def f_array(a):
    return str(a.tolist())


def f_array_items(pair):
    k, a = pair
    return str(k) + ':' + str(a.tolist())


def f_series(s):
    return s.iloc[0]


def f_series_items(pair):
    k, s = pair
    return str(k) + repr(s.iloc[0])


def f_tuple(t):
    return str(tuple(t))


def f_tuple_items(pair):
    return str(pair[0]) + str(tuple(pair[1]))


def f_group(g):
    return g.shape[0]


def f_group_items(pair):
    return (str(pair[0]), pair[1].shape[0])


def f_window(w):
    return int(w.values.sum()) if w.values.dtype.kind in 'if' else w.shape[0]


def f_window_items(pair):
    return str(pair[0]) + ':' + str(pair[1].shape)


FAIL_AT = {'n': None}


def make_failing(fn, fail_index):
    calls = {'n': 0}

    def g(x):
        i = calls['n']
        calls['n'] += 1
        if i == fail_index:
            raise ValueError('task %d fails' % i)
        return fn(x)
    return g


def iter_interfaces(name, c):
    '''(interface label, callable() -> IterNodeDelegate, values-function, items-function)'''
    out = []
    if isinstance(c, sf.Series):
        out.append(('iter_element', lambda: c.iter_element(), f_elem, 'values'))
        out.append(('iter_element_items', lambda: c.iter_element_items(), f_elem_items, 'items'))
        out.append(('iter_group', lambda: c.iter_group(), f_group, 'values'))
        out.append(('iter_group_items', lambda: c.iter_group_items(), f_group_items, 'items'))
        out.append(('iter_window(2)', lambda: c.iter_window(size=2), f_window, 'values'))
        out.append(('iter_window_items(2)', lambda: c.iter_window_items(size=2), f_window_items, 'items'))
        return out
    for axis in (0, 1):
        out.append((f'iter_array({axis})', lambda axis=axis: c.iter_array(axis=axis), f_array, 'values'))
        out.append((f'iter_array_items({axis})', lambda axis=axis: c.iter_array_items(axis=axis), f_array_items, 'items'))
        out.append((f'iter_series({axis})', lambda axis=axis: c.iter_series(axis=axis), f_series, 'values'))
        out.append((f'iter_series_items({axis})', lambda axis=axis: c.iter_series_items(axis=axis), f_series_items, 'items'))
        out.append((f'iter_tuple({axis})', lambda axis=axis: c.iter_tuple(axis=axis), f_tuple, 'values'))
        out.append((f'iter_tuple_items({axis})', lambda axis=axis: c.iter_tuple_items(axis=axis), f_tuple_items, 'items'))
    first = c.columns.values[0]
    out.append(('iter_group(first)', lambda: c.iter_group(first), f_group, 'values'))
    out.append(('iter_group_items(first)', lambda: c.iter_group_items(first), f_group_items, 'items'))
    out.append(('iter_window(2)', lambda: c.iter_window(size=2), f_group, 'values'))
    out.append(('iter_window_items(2)', lambda: c.iter_window_items(size=2), f_window_items, 'items'))
    if name == 'frame3x4-2d':
        out.append(('iter_element', lambda: c.iter_element(), f_elem, 'values'))
    return out


def scope(tier):
    if tier == 'quick':
        return dict(workers=(1, 2, 3, 4), chunks=(1, 2, 3), containers=tuple(containers()), real=True)
    return dict(workers=(1, 2, 3, 4, 8), chunks=(1, 2, 3, 5), containers=tuple(containers()), real=True)


def cases(tier):
    sc = scope(tier)
    cs = containers()
    for cname in sc['containers']:
        for i in range(len(iter_interfaces(cname, cs[cname]))):
            yield ('apply_pool', cname, i, tier)
    for op in range(len(BATCH_CASES)):
        yield ('batch', op, tier)
    for w in sc['workers']:
        if w > 1:
            yield ('zip', tier, w)
    yield ('real-threads', tier)
    yield ('real-processes', tier)
    yield ('executor-selftest', tier)


def universe(tier):
    sc = scope(tier)
    return dict(max_workers=list(sc['workers']), chunksize=list(sc['chunks']), containers=list(sc['containers']), batch_cases=[b[0] for b in BATCH_CASES],
                pools=['threads', 'processes'], failing_task_positions='each position')


def outcome(fn):
    try:
        return ('ok', snap(fn()))
    except Exception as e:
        return ('raises', type(e).__name__)


def run_apply_pool(case, ctx):
    _, cname, idx, tier = case
    sc = scope(tier)
    c = containers()[cname]
    label, mk, fn, form = iter_interfaces(cname, c)[idx]
    # sequential reference: the items forms hand the function (key, value) as two arguments, the pool forms hand it one pair (documented adapter)
    seq = outcome(lambda: mk().apply(fn if form == 'values' else (lambda k, v: fn((k, v)))))
    ntasks = len(list(mk()))
    undo = sched.install(MODS)
    try:
        for workers, chunk, threads in itertools.product(sc['workers'], sc['chunks'], (True, False)):
            if threads and chunk != sc['chunks'][0]:
                continue   # thread pools ignore chunksize: one representative
            info = dict(container=cname, interface=label, max_workers=workers, chunksize=chunk, use_threads=threads, tasks=ntasks)
            log = []
            sched.CURRENT['log'] = log
            n_exec = 0
            # tasks as the pool sees them (process pools group by chunksize); completion orders = w^(n-w) * w!: beyond 50000 every order with at most
            # DEV_BOUND deviations from submission order is executed instead (and the evidence says so)
            npool = ntasks if threads else -(-ntasks // chunk)
            est = (workers ** max(0, npool - workers)) * math.factorial(min(workers, npool))
            bound = None if est <= 50000 else DEV_BOUND
            if bound is not None:
                ctx.count('deviation-bounded-configurations')
                ctx.extra['deviation_bound'] = f'configurations with more than 50000 completion orders are explored up to {DEV_BOUND} deviations from submission order'
            for trace, order, out in sched.explore(lambda: outcome(lambda: mk().apply_pool(fn, max_workers=workers, chunksize=chunk, use_threads=threads)), max_deviations=bound):
                n_exec += 1
                ctx.transition()
                ctx.state((cname, label, workers, chunk, threads, tuple(order)))
                if order != sorted(order):
                    ctx.nontriv((cname, label, workers, chunk, threads, tuple(order)))
                if out != seq:
                    ctx.violation(f'apply_pool|{label.split("(")[0]}|differs-from-sequential', **info, completion_order=order, got=repr(out)[:400], expected=repr(seq)[:400])
                    break
            sched.CURRENT['log'] = None
            want = 'thread' if threads else 'process'
            if not log or any(k != want for k, _ in log) or any(w != workers for _, w in log):
                ctx.violation(f'apply_pool|{label.split("(")[0]}|pool-kind-or-worker-count-not-as-requested', **info, executors=log)
            ctx.outcome(f'schedules={n_exec}')
            # one failing task, at each position: must raise for every schedule
            for fail in range(ntasks):
                fbound = None if est <= (40 if tier == 'quick' else 3000) else 2
                if fbound is not None and fail == 0:
                    ctx.count('deviation-bounded-configurations')
                    ctx.extra['deviation_bound_failing_task'] = 'failing-task configurations beyond 40 (quick) / 3000 (thorough) completion orders are explored up to 2 deviations'
                for trace, order, out in sched.explore(lambda: outcome(lambda: mk().apply_pool(make_failing(fn, fail), max_workers=workers, chunksize=chunk, use_threads=threads)), max_deviations=fbound):
                    ctx.transition()
                    if out[0] != 'raises':
                        ctx.violation(f'apply_pool|{label.split("(")[0]}|failing-task-does-not-surface', **info, failing_task=fail, completion_order=order, got=repr(out)[:300])
                        break
    finally:
        sched.CURRENT['log'] = None
        undo()
    ctx.sample({'family': 'apply_pool', 'container': cname, 'interface': label, 'tasks': ntasks}, limit=1)


# ------------------------------------------------------------------ Batch
def b_frames(n=3):
    out = []
    for i in range(n):
        out.append(sf.Frame.from_records([[i, 2.5 * i], [10 + i, 1.5]], index=('a', 'b'), columns=('p', 'q'), name='f%d' % i))
    return out


def b_double(f):
    return f * 2


def b_items(k, f):
    return f.rename(repr(k) + '!')


def b_items_fail_empty_label(k, f):
    # uses the label it is handed: the Frame labelled '' fails, the others record the label they received
    if k == '':
        raise ValueError('empty label')
    return f.rename(repr(k) + '!')


def b_fail_second(f):
    if f.iloc[0, 0] == 1:      # the second Frame, whatever its name or label
        raise ValueError('f1 fails')
    return f * 2


BATCH_CASES = [
    ('apply', lambda b: b.apply(b_double), False),
    ('apply_items', lambda b: b.apply_items(b_items), False),
    ('sum', lambda b: b.sum(), False),
    ('iloc', lambda b: b.iloc[:1], False),
    ('getitem', lambda b: b['p'], False),
    ('chain: apply then sum', lambda b: b.apply(b_double).sum(), False),
    ('chain: iloc then apply', lambda b: b.iloc[:, :1].apply(b_double), False),
    ('chain: sum then mul', lambda b: b.sum() * 2, False),
    ('chain: getitem-list then max', lambda b: b[['q', 'p']].max(), False),
    ('mul', lambda b: b * 2, False),
    ('head', lambda b: b.head(1), False),
    ('loc-row', lambda b: b.loc['a'], False),
    ('sort_values', lambda b: b.sort_values('q', ascending=False), False),
    ('apply failing', lambda b: b.apply(b_fail_second), True),
    ('apply_except', lambda b: b.apply_except(b_fail_second, ValueError), False),
    ('apply_except other exception type', lambda b: b.apply_except(b_fail_second, KeyError), True),
    ('apply_items_except', lambda b: b.apply_items_except(lambda k, f: b_fail_second(f), ValueError), False),
    ('apply_items_except label-aware', lambda b: b.apply_items_except(b_items_fail_empty_label, ValueError), False),
    ('apply_items label-aware', lambda b: b.apply_items(lambda k, f: f.rename(repr(k) + '!')), False),
]


def run_batch(case, ctx):
    _, op, tier = case
    sc = scope(tier)
    name, fn, must_raise = BATCH_CASES[op]

    def run(workers, chunk, threads, n):
        if n == 'dup':
            # repeated Batch labels (unnamed Frames all carry the label None; explicit repeats): one result per input, in input order
            fr_ = b_frames(3)
            b = sf.Batch(iter([('L', fr_[0]), ('M', fr_[1]), ('L', fr_[2])]), max_workers=workers, chunksize=chunk, use_threads=threads)
        elif n == 'falsy':
            # falsy labels (0, '', None) that differ from the Frames' names: the function receives the label, not the name
            b = sf.Batch(iter(zip((0, '', None), b_frames(3))), max_workers=workers, chunksize=chunk, use_threads=threads)
        elif n == 'grown-go':
            # grow-only members whose last column was added after construction and never read since (as handed to a worker of a process pool)
            def grown(f):
                g = f[['p']].to_frame_go()
                g['q'] = f['q'].values
                return g
            b = sf.Batch.from_frames([grown(f) for f in b_frames(3)], max_workers=workers, chunksize=chunk, use_threads=threads)
        elif n == 'unnamed':
            b = sf.Batch.from_frames([f.rename(None) for f in b_frames(3)], max_workers=workers, chunksize=chunk, use_threads=threads)
        elif n < 0:
            # Batch labels that are not the names of the Frames (as when a Batch is built from group items): results are labelled by the Batch label
            b = sf.Batch(((f'L{i}', f) for i, f in enumerate(b_frames(-n))), max_workers=workers, chunksize=chunk, use_threads=threads)
        else:
            b = sf.Batch.from_frames(b_frames(n), max_workers=workers, chunksize=chunk, use_threads=threads)
        r = fn(b)
        return tuple((k, snap(v)) for k, v in r.items())
    for n in (3, -3, 'dup', 'unnamed', 'falsy', 'grown-go', 4) if tier != 'quick' else (3, -3, 'dup', 'unnamed', 'falsy', 'grown-go'):
        seq = outcome(lambda: run(None, 1, False, n))
        if must_raise and seq[0] != 'raises':
            ctx.violation(f'batch|{name}|sequential-does-not-raise', got=repr(seq)[:300])
        undo = sched.install(MODS)
        try:
            for workers, chunk, threads in itertools.product(sc['workers'], sc['chunks'], (True, False)):
                if 'except' in name and chunk != 1:
                    continue   # documented: apply_except idioms require chunksize 1
                info = dict(operation=name, max_workers=workers, chunksize=chunk, use_threads=threads, frames=n)
                for trace, order, out in explore_capped(lambda: outcome(lambda: run(workers, chunk, threads, n)), 400 if tier == 'quick' else 6000):
                    ctx.transition()
                    ctx.state(('batch', name, workers, chunk, threads, n, tuple(order)))
                    if order != sorted(order):
                        ctx.nontriv(('batch', name, workers, chunk, threads, n, tuple(order)))
                    if must_raise:
                        if out[0] != 'raises':
                            ctx.violation(f'batch|{name}|failing-task-does-not-surface', **info, completion_order=order, got=repr(out)[:300])
                            break
                    elif out != seq:
                        ctx.violation(f'batch|{name}|differs-from-sequential', **info, completion_order=order, got=repr(out)[:400], expected=repr(seq)[:400])
                        break
        finally:
            undo()
    ctx.sample({'family': 'batch', 'operation': name}, limit=1)


def run_zip(case, ctx):
    '''multi-worker reading and writing of zipped stores under every completion order'''
    tier = case[1]
    sc = scope(tier)
    frames = b_frames(3) + [sf.Frame.from_records([['x', True]], index=('z',), columns=('s', 't'), name='g')]
    frames_h = frames + [sf.Frame.from_records([[1, 2], [3, 4]], index=sf.IndexHierarchy.from_labels([('a', 1), ('b', 2)]), columns=('p', 'q'), name='h')]
    ref_path = os.path.join(workdir(), 'c18_ref_%s.zip' % (case[2] if len(case) > 2 else 'all'))
    sf.Bus.from_frames(frames).to_zip_pickle(ref_path)
    seq = outcome(lambda: tuple((k, snap(v)) for k, v in sf.Bus.from_zip_pickle(ref_path).items()))
    undo = sched.install(MODS)
    try:
        for workers, chunk in itertools.product([w for w in sc['workers'] if w > 1 and (len(case) < 3 or w == case[2])], sc['chunks']):
            cfg = sf.StoreConfig(read_max_workers=workers, read_chunksize=chunk, write_max_workers=workers, write_chunksize=chunk)
            info = dict(max_workers=workers, chunksize=chunk)
            for fmt, to, frm in (('zip_pickle', 'to_zip_pickle', 'from_zip_pickle'), ('zip_pickle-labels-are-not-the-frame-names', 'to_zip_pickle', 'from_zip_pickle'), ('zip_csv', 'to_zip_csv', 'from_zip_csv'), ('zip_csv-per-label-config', 'to_zip_csv', 'from_zip_csv'),
                                 ('zip_csv-no-labels-written', 'to_zip_csv', 'from_zip_csv'), ('zip_tsv-no-index-written', 'to_zip_tsv', 'from_zip_tsv')):
                cfgm = cfg if fmt.startswith('zip_pickle') else sf.StoreConfig(index_depth=1, read_max_workers=workers, read_chunksize=chunk, write_max_workers=workers, write_chunksize=chunk)
                if fmt == 'zip_csv-per-label-config':
                    # every label has its own read configuration (the hierarchical frame needs index_depth=2); workers are set on all of them
                    mk = lambda d: sf.StoreConfig(index_depth=d, read_max_workers=workers, read_chunksize=chunk, write_max_workers=workers, write_chunksize=chunk)
                    cfgm = sf.StoreConfigMap({f.name: mk(f.index.depth) for f in frames_h}, default=mk(1))
                wp = os.path.join(workdir(), f'c18_w_{fmt}_{workers}.zip')
                fr = frames_h if fmt == 'zip_csv-per-label-config' else frames
                cfg1 = sf.StoreConfig(index_depth=1) if not fmt.startswith('zip_pickle') else None
                if fmt == 'zip_csv-per-label-config':
                    cfg1 = sf.StoreConfigMap({f.name: sf.StoreConfig(index_depth=f.index.depth) for f in frames_h}, default=sf.StoreConfig(index_depth=1))
                if fmt in ('zip_csv-no-labels-written', 'zip_tsv-no-index-written'):
                    # configurations whose non-default values are falsy (0, False): the workers must receive them as given
                    kw_ = dict(index_depth=0, columns_depth=0, include_index=False, include_columns=False) if fmt.startswith('zip_csv') else dict(index_depth=0, columns_depth=1, include_index=False)
                    cfg1 = sf.StoreConfig(**kw_)
                    cfgm = sf.StoreConfig(read_max_workers=workers, read_chunksize=chunk, write_max_workers=workers, write_chunksize=chunk, **kw_)

                blabels = [f.name for f in fr]
                if fmt == 'zip_pickle-labels-are-not-the-frame-names':
                    # pickled Frames keep their own names whatever label they are stored under (one unnamed, one named by a tuple)
                    fr = [fr[0], fr[1].rename(None), fr[2].rename(('t', 1)), fr[3]]
                    blabels = ['L0', 'L1', 'L2', 'L3']
                mkbus = lambda: sf.Bus.from_items(zip(blabels, fr))

                def observe(b, through_pool):
                    # the archive's own label order (member order of the zip, as written) is part of the result; a multi-label read goes through the pool
                    sel = b.loc[list(blabels)] if through_pool else b
                    return (('labels-in-store-order', tuple(b.index.values.tolist())),) + tuple((k, snap(v)) for k, v in zip(sel.index.values.tolist(), (sel._series.values if through_pool else [b[k] for k in b.index])))

                def fresh(path):
                    if os.path.exists(path):
                        os.remove(path)

                # reference: single-worker write, single-worker read
                fresh(wp)
                getattr(mkbus(), to)(wp, config=cfg1)
                one = outcome(lambda: observe(getattr(sf.Bus, frm)(wp, config=cfg1), False))
                if one[0] != 'ok':
                    ctx.violation(f'zip|{fmt}|single-worker-round-trip-fails', **info, got=repr(one)[:300])
                    continue
                # phase R: that file read through the pool, every completion order of the read tasks
                # phase W: written through the pool under every completion order of the write tasks, then read back without a pool
                # (the two phases share nothing but the file, so their orders are explored one after the other: a sum, not a product)
                def read_pool():
                    return observe(getattr(sf.Bus, frm)(wp, config=cfgm), True)

                def write_pool():
                    fresh(wp)
                    getattr(mkbus(), to)(wp, config=cfgm)
                    return observe(getattr(sf.Bus, frm)(wp, config=cfg1), False)
                for phase, body in (('read', read_pool), ('write', write_pool)):
                    for trace, order, out in explore_capped(lambda: outcome(body), 5000):
                        ctx.transition()
                        ctx.state(('zip', fmt, phase, workers, chunk, tuple(order)))
                        if order != sorted(order):
                            ctx.nontriv(('zip', fmt, phase, workers, chunk, tuple(order)))
                        if out != one:
                            ctx.violation(f'zip|{fmt}|{phase}-through-pool|result-depends-on-completion-order-or-differs-from-sequential', **info, completion_order=order,
                                          got=repr(out)[:300], expected=repr(one)[:300])
                            break
    finally:
        undo()
    ctx.sample({'family': 'zip'}, limit=1)


# ------------------------------------------------------------------ real pools with gates
_GATES = {}


def gated(x):
    '''task body for the real pools: wait for this element's gate, then compute'''
    ev = _GATES.get(int(x))
    if ev is not None:
        ev.wait(10)
    return int(x) * 2


def run_real_threads(case, ctx):
    s = sf.Series([3, 1, 4], index=('a', 'b', 'c'), name='s')
    seq = snap(s.iter_element().apply(lambda x: int(x) * 2))
    for order in itertools.permutations((3, 1, 4)):
        for workers in (3, 2):
            # with 2 workers the third task cannot finish before one of the first two has
            if workers == 2 and order[0] == 4:
                continue
            _GATES.clear()
            for v in (3, 1, 4):
                _GATES[v] = threading.Event()
            done = []

            def release():
                for v in order:
                    _GATES[v].set()
                    # wait until that task is really finished before opening the next gate
                    import time
                    time.sleep(0.01)
            t = threading.Thread(target=release)
            t.start()
            try:
                r = snap(s.iter_element().apply_pool(gated, max_workers=workers, use_threads=True))
            except Exception as e:
                r = ('raises', type(e).__name__)
            t.join()
            ctx.transition()
            ctx.count('real_pool_executions')
            ctx.state(('real-threads', order, workers))
            ctx.nontriv(('real-threads', order, workers))
            if r != seq:
                ctx.violation('real-threads|differs-from-sequential', order=order, max_workers=workers, got=repr(r)[:300], expected=repr(seq)[:300])
    _GATES.clear()
    ctx.sample({'family': 'real-threads', 'orders': 'all permutations of 3 tasks', 'workers': [3, 2]}, limit=1)


def _mp_task(x):
    import time
    # later elements finish first: completion order is the reverse of submission order
    time.sleep({3: 0.15, 1: 0.08, 4: 0.0}.get(int(x), 0))
    return int(x) * 2


def _mp_task_items(pair):
    return str(pair[0]) + str(_mp_task(pair[1]))


def run_real_processes(case, ctx):
    s = sf.Series([3, 1, 4], index=('a', 'b', 'c'), name='s')
    seq = snap(s.iter_element().apply(lambda x: int(x) * 2))
    seq_items = snap(s.iter_element_items().apply(lambda k, v: str(k) + str(int(v) * 2)))
    for workers, chunk in ((3, 1), (2, 1), (3, 2)):
        ctx.transition(2)
        ctx.count('real_pool_executions', 2)
        ctx.state(('real-processes', workers, chunk))
        ctx.nontriv(('real-processes', workers, chunk))
        ctx.nontriv(('real-processes-items', workers, chunk))
        try:
            r = snap(s.iter_element().apply_pool(_mp_task, max_workers=workers, chunksize=chunk, use_threads=False))
            r2 = snap(s.iter_element_items().apply_pool(_mp_task_items, max_workers=workers, chunksize=chunk, use_threads=False))
        except Exception as e:
            ctx.violation(f'real-processes|raises-{type(e).__name__}', max_workers=workers, chunksize=chunk, error=repr(e))
            continue
        if r != seq or r2 != seq_items:
            ctx.violation('real-processes|differs-from-sequential', max_workers=workers, chunksize=chunk, got=repr((r, r2))[:300], expected=repr((seq, seq_items))[:300])
    ctx.sample({'family': 'real-processes', 'delays': 'reverse completion order', 'configs': [(3, 1), (2, 1), (3, 2)]}, limit=1)


def run_selftest(case, ctx):
    '''the controlled executor against the real ThreadPoolExecutor on the bare concurrent.futures interface: same results for map / submit, and the number of
    feasible completion orders of n tasks on w workers equals the combinatorial count.'''
    from concurrent.futures import ThreadPoolExecutor
    import math
    for n, w in itertools.product((1, 2, 3, 4), (1, 2, 3, 4)):
        def run():
            with sched.ScheduledThreadPool(max_workers=w) as ex:
                return list(ex.map(lambda x: x * x, range(n)))
        orders = set()
        for trace, order, out in sched.explore(run):
            ctx.transition()
            orders.add(tuple(order))
            if out != [i * i for i in range(n)]:
                ctx.violation('selftest|map-result', n=n, workers=w, got=out)
        ctx.state(('selftest', n, w, len(orders)))
        ctx.nontriv(('selftest', n, w))
        # feasible orders: sequences where each completed task is among the w earliest-submitted unfinished ones
        def count(remaining):
            if not remaining:
                return 1
            return sum(count(remaining[:i] + remaining[i + 1:]) for i in range(min(w, len(remaining))))
        if len(orders) != count(tuple(range(n))):
            ctx.violation('selftest|number-of-feasible-orders', n=n, workers=w, got=len(orders), expected=count(tuple(range(n))))
        with ThreadPoolExecutor(max_workers=w) as ex:
            real = list(ex.map(lambda x: x * x, range(n)))
        if real != [i * i for i in range(n)]:
            ctx.violation('selftest|real-pool', n=n, workers=w)
    ctx.sample({'family': 'executor-selftest'}, limit=1)


def run_case(case, ctx):
    CAP_CTX[0], CAP_CTX[1] = ctx, case
    {'apply_pool': run_apply_pool, 'batch': run_batch, 'zip': run_zip, 'real-threads': run_real_threads, 'real-processes': run_real_processes,
     'executor-selftest': run_selftest}[case[0]](case, ctx)
