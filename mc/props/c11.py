"""C11 Concatenation and overlay keep every input cell exactly once, aligned by label.

Mode P.  Sequences of 0..3 Frames (and Series) whose aligned-axis labels range over
ordered sub-permutations of three labels, concat-axis labels unique or colliding,
three dtype patterns and two layouts (forcing block-compatible / re-blockable /
incompatible stacking), both axes, union / intersection, explicit index /
IndexAutoFactory / default, generator inputs; items forms; overlays with holes.
Oracle: a dict (concat label, aligned label) -> value built from the inputs.
"""
import itertools

import numpy as np

import static_frame as sf
from mc import universe as U
from mc.observe import columns_of, is_missing, norm

PROPERTY_ID = 'C11'
MODE = 'P (product enumeration of input sequences x axis x union x index option; cell-dict reference)'
RULE = ('case = (family, k inputs, per-input descriptors shard); each sequence is concatenated / overlaid by the real code and compared with the '
        'cell dictionary built from the inputs (each input cell exactly once at its own labels, fill elsewhere); non-trivial = sequence with >=2 inputs '
        'whose aligned labels are not all identical; states = distinct input sequences; transitions = constructor calls compared')
ASSUMPTIONS = [
    'order of the aligned-axis union/intersection is compared only when all inputs carry the same labels in the same order (the statement fixes no order otherwise)',
    'numeric equality across int/float (a column that receives the fill value is promoted); exact dtype preservation is C07',
    'colliding labels must be rejected with an ErrorInit* (or the Frame/Series initialisation error family) exception',
]

ALIGNED = ['a', 'b', 'c', 'ab', 'ba', 'ac', 'cb', 'abc', 'cab']
PATTERNS = ('int', 'bylabel', 'float', 'dates')
DATE_BY_LABEL = {'a': 'datetime64[Y]', 'b': 'datetime64[D]', 'c': 'datetime64[D]'}     # same kind, same item size, different units; b and c can share a 2-D block
KIND_BY_LABEL = {'a': 'int64', 'b': 'float64', 'c': '<U4'}


def cellval(i, lab, j, dtype):
    base = 100 * (i + 1) + 10 * 'abc'.index(lab) + j
    if dtype == 'int64':
        return base
    if dtype == 'float64':
        return base + 0.5
    if dtype.startswith('datetime64'):
        # a value that needs the full precision of its unit (a day inside a year, a second inside a day)
        return np.datetime64('2001-03-14T05:06:07', 's').astype(dtype) + np.timedelta64(base, dtype[11:-1]).astype(f'timedelta64[{dtype[11:-1]}]')
    return 's%d' % base


def make_frame(i, desc, axis, collide):
    '''desc = (aligned labels str, m other-axis count, pattern, layout).  Returns frame and its cell dict
    {(concat label, aligned label): value}.'''
    labs, m, pattern, lay = desc
    L = list(labs)
    other = ['r%d' % j if collide else 'f%dr%d' % (i, j) for j in range(m)]
    cells = {}
    if axis == 0:
        # columns are the aligned labels (typed per label), rows are the concat labels
        cols = []
        for lab in L:
            dt = {'int': 'int64', 'float': 'float64'}.get(pattern) or (DATE_BY_LABEL if pattern == 'dates' else KIND_BY_LABEL)[lab]
            vals = [cellval(i, lab, j, dt) for j in range(m)]
            for j, v in enumerate(vals):
                cells[(other[j], lab)] = v
            cols.append(U.frozen(np.array(vals, dtype=dt)))
        index, columns = other, L
    else:
        # index are the aligned labels, columns the concat labels (typed per column position)
        cols = []
        for j in range(m):
            dt = {'int': 'int64', 'float': 'float64'}.get(pattern) or (('datetime64[Y]', 'datetime64[D]', 'datetime64[D]')[j % 3] if pattern == 'dates' else ('int64', 'float64')[j % 2])
            vals = [cellval(i, lab, j, dt) for lab in L]
            for lab, v in zip(L, vals):
                cells[(other[j], lab)] = v
            cols.append(U.frozen(np.array(vals, dtype=dt)))
        index, columns = L, other
    lays = list(U.layouts(cols))
    sig, blocks = lays[0] if lay == 0 else lays[-1]
    f = U.frame_from_blocks(blocks, len(index), index=index, columns=columns, name='f%d' % i)
    return f, cells, other


def descriptors(k, tier):
    '''Per-input descriptor universe, narrowed as k grows.'''
    if k <= 2:
        al = ALIGNED if tier == 'thorough' else ALIGNED[:7]
        # the date pattern: three columns (year, day, day) so that the two layouts differ in how the day columns are blocked
        return ([(a, m, p, lay) for a in al for m in (1, 2) for p in PATTERNS[:3] for lay in (0, 1)]
                + [(a, 3, 'dates', lay) for a in ('abc', 'cab', 'ab') for lay in (0, 1)])
    al = (ALIGNED[:7] if tier == 'thorough' else ['a', 'ab', 'ba', 'cb']) + ['']      # '' = an input with no label at all on the aligned axis
    return [(a, 1, p, 1) for a in al for p in (('int', 'bylabel', 'float') if tier == 'thorough' else ('int', 'bylabel'))]


def cases(tier):
    for axis in (0, 1):
        yield ('concat', axis, 0, (0, 1))
        for k in (1, 2, 3):
            n = len(descriptors(k, tier)) ** k
            nsh = max(1, n // 200)
            for sh in range(nsh):
                yield ('concat', axis, k, (sh, nsh))
    nser = 4 if tier == 'quick' else 5
    for k in range(0, 4):
        yield ('series', k, nser)
    for sh in range(48):
        yield ('overlay', (sh, 48))
    for k in (1, 2, 3):
        yield ('series-overlay', k)
    yield ('typed-index-concat', 0)
    for k in (1, 2, 3):
        yield ('hier-widths', k)


def universe(tier):
    return {'aligned_label_sequences': ALIGNED, 'patterns': PATTERNS, 'inputs': '0..3',
            'descriptors_k<=2': len(descriptors(2, tier)), 'descriptors_k3': len(descriptors(3, tier)),
            'options': 'union/intersection x (default | IndexAutoFactory | explicit) x (unique | colliding) x generator input'}


def eqv(a, b):
    ma, mb = is_missing(a), is_missing(b)
    if ma or mb:
        return ma and mb
    if isinstance(a, (str, np.str_)) != isinstance(b, (str, np.str_)):
        return False
    try:
        return bool(a == b)
    except Exception:
        return False


def frame_cells(f, axis):
    '''{(concat label, aligned label): value}'''
    cols = columns_of(f)
    rl = [tuple(x) if isinstance(x, (tuple, np.ndarray)) else x for x in f.index]
    cl = [tuple(x) if isinstance(x, (tuple, np.ndarray)) else x for x in f.columns]
    out = {}
    for j, c in enumerate(cl):
        for i, r in enumerate(rl):
            out[(r, c) if axis == 0 else (c, r)] = cols[j][i]
    return out, (rl if axis == 0 else cl), (cl if axis == 0 else rl)


def is_init_error(e):
    return isinstance(e, (sf.ErrorInitFrame, sf.ErrorInitIndex, sf.ErrorInitSeries, sf.ErrorInitTypeBlocks)) or type(e).__name__.startswith('ErrorInit')


def check_concat(ctx, tag, call, exp_cells, exp_concat, exp_aligned_set, exp_aligned_order, fill, axis, info, expect_error=False):
    ctx.transition()
    try:
        res = call()
    except Exception as e:
        if expect_error:
            if not is_init_error(e):
                ctx.violation(f'{tag}|collision-raises-{type(e).__name__}-not-an-init-error', **info, error=repr(e))
            return
        ctx.violation(f'{tag}|raises|{type(e).__name__}', **info, error=repr(e))
        return
    if expect_error:
        ctx.violation(f'{tag}|duplicate-labels-accepted', **info, got=repr(res.index.values.tolist() if axis == 0 else res.columns.values.tolist()))
        return
    got, gc, ga = frame_cells(res, axis)
    if gc != exp_concat:
        ctx.violation(f'{tag}|concat-axis-labels', **info, got=gc, expected=exp_concat)
        return
    if set(ga) != exp_aligned_set or len(ga) != len(exp_aligned_set):
        ctx.violation(f'{tag}|aligned-axis-labels', **info, got=ga, expected=sorted(exp_aligned_set))
        return
    if exp_aligned_order is not None and ga != exp_aligned_order:
        ctx.violation(f'{tag}|aligned-axis-order', **info, got=ga, expected=exp_aligned_order)
        return
    for c in exp_concat:
        for a in ga:
            e = exp_cells.get((c, a), fill)
            g = got[(c, a)]
            if not eqv(g, e):
                ctx.violation(f'{tag}|cell', **info, cell=(c, a), got=norm(g), expected=norm(e))
                return


def run_concat(case, ctx):
    _, axis, k, (sh, nsh) = case
    tier = run_concat.tier
    descs = descriptors(k, tier) if k else []
    for vi, seq in enumerate(itertools.product(descs, repeat=k)):
        if vi % nsh != sh:
            continue
        ctx.state(('concat', axis, seq))
        aligned_all = [list(d[0]) for d in seq]
        same = all(a == aligned_all[0] for a in aligned_all) if aligned_all else True
        if k >= 2 and not same:
            ctx.nontriv(('concat', axis, seq))
        for collide in (False, True):
            built = [make_frame(i, d, axis, collide) for i, d in enumerate(seq)]
            frames = [b[0] for b in built]
            cells = {}
            dup = False
            concat_labels = []
            for _, c, other in built:
                for key, v in c.items():
                    cells.setdefault(key, v)
                for o in other:
                    if o in concat_labels:
                        dup = True
                    concat_labels.append(o)
            if collide and not dup:
                continue
            info = dict(axis=axis, inputs=seq, collide=collide)
            for union in (True, False):
                if k == 0:
                    aset = set()
                elif union:
                    aset = set().union(*map(set, aligned_all))
                else:
                    aset = set(aligned_all[0]).intersection(*map(set, aligned_all[1:]))
                order = aligned_all[0] if (same and k) else None
                kw = dict(axis=axis, union=union)
                tag = f'from_concat|axis={axis}|union={union}'
                if k == 0:
                    # nothing to concatenate: an empty Frame (or an explicit refusal) is acceptable, data is not
                    ctx.transition()
                    try:
                        r = sf.Frame.from_concat((), **kw)
                        if r.size != 0:
                            ctx.violation(f'{tag}|empty-input-gives-data', got=repr(r))
                    except Exception:
                        pass
                    continue
                if not dup:
                    check_concat(ctx, tag, lambda: sf.Frame.from_concat(frames, **kw), cells, concat_labels, aset, order, np.nan, axis, info)
                    check_concat(ctx, tag + '|generator|fill=-1', lambda: sf.Frame.from_concat((f for f in frames), fill_value=-1, **kw),
                                 cells, concat_labels, aset, order, -1, axis, info)
                    # items form: two-level labels (key, label)
                    items = [('k%d' % i, f) for i, f in enumerate(frames)]
                    cells_items = {}
                    for i, (_, c, other) in enumerate(built):
                        for (o, a), v in c.items():
                            cells_items[(('k%d' % i, o), a)] = v
                    labels_items = [('k%d' % i, o) for i, (_, _, other) in enumerate(built) for o in other]
                    check_concat(ctx, f'from_concat_items|axis={axis}|union={union}', lambda: sf.Frame.from_concat_items(items, **kw),
                                 cells_items, labels_items, aset, order, np.nan, axis, info)
                else:
                    check_concat(ctx, tag + '|colliding', lambda: sf.Frame.from_concat(frames, **kw), None, None, None, None, None, axis, info, expect_error=True)
                    # replacement labels make it legal again: positions decide, so build the cell dict by position
                    total = len(concat_labels)
                    cells_pos = {}
                    pos = 0
                    for _, c, other in built:
                        for o in other:
                            for (oo, a), v in c.items():
                                if oo == o:
                                    cells_pos[(pos, a)] = v
                            pos += 1
                    ixkw = {'index' if axis == 0 else 'columns': sf.IndexAutoFactory}
                    check_concat(ctx, tag + '|IndexAutoFactory', lambda: sf.Frame.from_concat(frames, **kw, **ixkw), cells_pos, list(range(total)), aset, order, np.nan, axis, info)
                    explicit = ['n%d' % p for p in range(total)]
                    ixkw2 = {'index' if axis == 0 else 'columns': explicit}
                    check_concat(ctx, tag + '|explicit-labels', lambda: sf.Frame.from_concat(frames, **kw, **ixkw2),
                                 {('n%d' % p, a): v for (p, a), v in cells_pos.items()}, explicit, aset, order, np.nan, axis, info)
        ctx.outcome(f'concat:k={k}')
    ctx.sample({'family': 'concat', 'axis': axis, 'k': k, 'shard': sh, 'descriptor_example': descs[:2]}, limit=1)


run_concat.tier = 'quick'


def run_series(case, ctx):
    _, k, nser = case
    # each input Series: labels = an ordered sub-permutation of 'abc' (possibly colliding with another input), kind int/float/str
    pool = [('a',), ('b',), ('ab',), ('ba',), ('c',), ('cb',)]
    descs = [(labs[0], kind) for labs in pool for kind in ('int64', 'float64', '<U4')]
    for seq in itertools.product(descs, repeat=k):
        ctx.state(('series', seq))
        ser = []
        labels, vals = [], []
        for i, (labs, dt) in enumerate(seq):
            v = [cellval(i, lab, 0, dt) for lab in labs]
            ser.append(sf.Series(U.frozen(np.array(v, dtype=dt)), index=list(labs), name='s%d' % i))
            labels += list(labs)
            vals += v
        dup = len(set(labels)) < len(labels)
        info = dict(inputs=seq)
        ctx.transition(3)
        if k >= 2:
            ctx.nontriv(('series', seq))
        try:
            r = sf.Series.from_concat(ser)
            if dup:
                ctx.violation('series.from_concat|duplicate-labels-accepted', **info, got=r.index.values.tolist())
            elif r.index.values.tolist() != labels or not all(eqv(g, e) for g, e in zip(r.values.tolist(), vals)) or len(r) != len(vals):
                ctx.violation('series.from_concat|labels-or-values', **info, got=(r.index.values.tolist(), r.values.tolist()), expected=(labels, vals))
        except Exception as e:
            if not dup:
                ctx.violation(f'series.from_concat|raises|{type(e).__name__}', **info, error=repr(e))
            elif not is_init_error(e):
                ctx.violation(f'series.from_concat|collision-raises-{type(e).__name__}-not-an-init-error', **info, error=repr(e))
        if k:
            try:
                r = sf.Series.from_concat(ser, index=sf.IndexAutoFactory)
                if r.index.values.tolist() != list(range(len(vals))) or not all(eqv(g, e) for g, e in zip(r.values.tolist(), vals)):
                    ctx.violation('series.from_concat|IndexAutoFactory', **info, got=(r.index.values.tolist(), r.values.tolist()), expected=vals)
                r = sf.Series.from_concat_items(('k%d' % i, s) for i, s in enumerate(ser))
                expl = [('k%d' % i, lab) for i, (labs, _) in enumerate(seq) for lab in labs]
                if [tuple(t) for t in r.index] != expl or not all(eqv(g, e) for g, e in zip(r.values.tolist(), vals)):
                    ctx.violation('series.from_concat_items', **info, got=([tuple(t) for t in r.index], r.values.tolist()), expected=(expl, vals))
            except Exception as e:
                ctx.violation(f'series.from_concat-variants|raises|{type(e).__name__}', **info, error=repr(e))
        ctx.outcome(f'series:k={k}')
    ctx.sample({'family': 'series', 'k': k}, limit=1)


def run_series_overlay(case, ctx):
    '''Series.from_overlay: k Series over ordered label subsets with every hole pattern; union / intersection / explicit index (any order, foreign labels).'''
    _, k = case
    pool = [('a', 'b', 'c'), ('c', 'a', 'b'), ('b', 'a'), ('c',), ('c', 'b')]
    for kind in ('float64', 'object'):
        miss = np.nan if kind == 'float64' else None
        for labsets in itertools.product(pool if k < 3 else pool[:4], repeat=k):
            for masks in itertools.product(*(itertools.product((0, 1), repeat=len(l)) for l in labsets)):
                ser, dicts = [], []
                for i, (labs, mask) in enumerate(zip(labsets, masks)):
                    vals = [miss if m else 100 * (i + 1) + 'abc'.index(l) + 0.5 for l, m in zip(labs, mask)]
                    a = np.empty(len(labs), dtype=kind)
                    for q, v in enumerate(vals):
                        a[q] = v
                    ser.append(sf.Series(U.frozen(a), index=list(labs), name='s%d' % i))
                    dicts.append(dict(zip(labs, vals)))
                ctx.state(('series-overlay', kind, labsets, masks))
                if k >= 2:
                    ctx.nontriv(('series-overlay', kind, labsets, masks))
                sets_ = [set(l) for l in labsets]
                routes = [('union', dict(union=True), None, set().union(*sets_)), ('intersection', dict(union=False), None, set(sets_[0]).intersection(*sets_[1:]))]
                for expl in (('c', 'b', 'a'), ('b', 'zz', 'a'), tuple(labsets[0][::-1])):
                    routes.append(('index=' + ''.join(expl), dict(index=list(expl)), list(expl), set(expl)))
                for rname, kw, order, lset in routes:
                    ctx.transition()
                    info = dict(kind=kind, labels=labsets, masks=masks, route=rname)
                    tag = 'series.from_overlay|' + (rname if not rname.startswith('index=') else 'explicit-index')
                    try:
                        r = sf.Series.from_overlay((s_ for s_ in ser) if sum(map(len, labsets)) % 2 else ser, **kw)
                    except Exception as e:
                        ctx.violation(f'{tag}|raises|{type(e).__name__}', **info, error=repr(e))
                        continue
                    gl = r.index.values.tolist()
                    if set(gl) != lset or len(gl) != len(lset) or (order is not None and gl != order):
                        ctx.violation(f'{tag}|labels', **info, got=gl, expected=order or sorted(lset))
                        continue
                    if order is None and all(l == labsets[0] for l in labsets) and gl != list(labsets[0]):
                        ctx.violation(f'{tag}|identical-indices-reordered', **info, got=gl)
                        continue
                    for lab, g in zip(gl, r.values.tolist()):
                        e = miss
                        for d in dicts:
                            if lab in d and not is_missing(d[lab]):
                                e = d[lab]
                                break
                        if not eqv(g, e):
                            ctx.violation(f'{tag}|cell', **info, label=lab, got=norm(g), expected=norm(e), result=(gl, [norm(x) for x in r.values.tolist()]))
                            break
    ctx.outcome('series-overlay')
    ctx.sample({'family': 'series-overlay', 'k': k}, limit=1)


def run_typed_index_concat(case, ctx):
    '''containers labelled by typed datetime indices of different resolution (year-month, day, second): the concatenated labels are the inputs' labels in
    input order (as instants), every value under its own label, for every ordered selection of 1..3 inputs'''
    mk = {
        'ym1': (sf.IndexYearMonth, ('2020-01', '2020-02')), 'd1': (sf.IndexDate, ('2020-03-15', '2020-04-20')), 'ym2': (sf.IndexYearMonth, ('2020-06',)),
        'd2': (sf.IndexDate, ('2020-07-04',)), 's1': (sf.IndexSecond, ('2020-08-01T10:11:12',)), 'plain': (sf.Index, ('x', 'y')),
    }
    names = list(mk)
    for k in (1, 2, 3):
        for seq in itertools.permutations(names, k):
            ctx.state(('typed', seq))
            ctx.transition(3)
            if len({mk[n][0] for n in seq}) > 1:
                ctx.nontriv(('typed', seq))
            info = dict(inputs=seq)
            labels, values, ser = [], [], []
            for i, n in enumerate(seq):
                cls, labs = mk[n]
                ix = cls(labs)
                vals = [100 * (i + 1) + j for j in range(len(labs))]
                ser.append(sf.Series(vals, index=ix, name=n))
                labels += list(ix.values)
                values += vals
            def same_label(a, b):
                import datetime as _dt
                da, db = isinstance(a, (np.datetime64, _dt.date)), isinstance(b, (np.datetime64, _dt.date))
                if da != db:
                    return False
                if da:
                    # in an object result a datetime64 label is held as the equal datetime.date / datetime (accepted: same instant)
                    return bool(np.datetime64(a) == np.datetime64(b))
                return a == b
            for route, fn in (('series.from_concat', lambda: sf.Series.from_concat(ser)),
                              ('frame.from_concat(axis=0)', lambda: sf.Frame.from_concat([s_.to_frame().relabel(columns=('v',)) for s_ in ser], axis=0)),
                              ('frame.from_concat(axis=1)', lambda: sf.Frame.from_concat([s_.to_frame().relabel(columns=('v',)).transpose() for s_ in ser], axis=1))):
                try:
                    r = fn()
                except Exception as e:
                    ctx.violation(f'typed-index|{route}|raises|{type(e).__name__}', **info, error=repr(e))
                    continue
                got_l = list(r.index.values) if 'axis=1' not in route else list(r.columns.values)
                got_v = r.values.ravel().tolist()
                if len(got_l) != len(labels) or not all(same_label(a, b) for a, b in zip(got_l, labels)):
                    ctx.violation(f'typed-index|{route}|labels-are-not-the-input-labels', **info, got=[str(x) for x in got_l], expected=[str(x) for x in labels])
                elif got_v != values:
                    ctx.violation(f'typed-index|{route}|values', **info, got=got_v, expected=values)
    ctx.outcome('typed-index-concat')
    ctx.sample({'family': 'typed-index-concat', 'index_kinds': names}, limit=1)


def run_overlay(case, ctx):
    '''from_overlay: k=2..3 frames over rows (x, y) and columns sub-permutations; every hole pattern on a 2x2 float/object grid.'''
    _, (sh, nsh) = case
    vi = -1
    for kind in ('float64', 'object'):
        miss = np.nan if kind == 'float64' else None
        for k in (1, 2, 3):
            shapes = [(('x', 'y'), ('a', 'b')), (('y', 'x'), ('b', 'a')), (('x',), ('a', 'c')), (('z', 'x'), ('a',))]
            seqs = list(itertools.product(shapes[:3] if k == 3 else shapes, repeat=k))
            if k == 2:
                # three columns in the first container, so that a NaN-free multi-column 2-D block can precede a block with holes
                seqs += [((('x',), ('a', 'b', 'c')), s2) for s2 in ((('x',), ('c', 'a')), (('x', 'y'), ('b', 'c')))]
                # ... and a later container that brings a NEW row and a NEW column (both axes of the first container are re-laid at once)
                seqs += [((('x',), ('a', 'b', 'c')), s2) for s2 in ((('x', 'y'), ('b', 'd')), (('y',), ('d',)))]
            for shape_seq in seqs:
                ncell = [len(r) * len(c) for r, c in shape_seq]
                three = len(shape_seq[0][1]) == 3
                for masks, lay in itertools.product(itertools.product(*(itertools.product((0, 1), repeat=n) for n in ncell)), range(13) if three else (0, -1)):
                    vi += 1
                    if vi % nsh != sh:
                        continue
                    frames = []
                    cell_lists = []
                    for i, ((rows, cols), mask) in enumerate(zip(shape_seq, masks)):
                        grid = {}
                        b = 0
                        data = []
                        for c in cols:
                            colv = []
                            for r in rows:
                                v = miss if mask[b] else (100 * (i + 1) + 10 * 'abcd'.index(c) + 'xyz'.index(r) + 0.5)
                                b += 1
                                grid[(r, c)] = v
                                colv.append(v)
                            a = np.empty(len(rows), dtype=kind)
                            for q, v in enumerate(colv):
                                a[q] = v
                            data.append(U.frozen(a))
                        lays = list(U.layouts(data))
                        blocks = lays[lay % len(lays) if lay >= 0 else -1][1] if i == 0 else data
                        frames.append(U.frame_from_blocks(blocks, len(rows), index=list(rows), columns=list(cols)))
                        cell_lists.append(grid)
                    ctx.state(('overlay', kind, shape_seq, masks, lay))
                    if k >= 2:
                        ctx.nontriv(('overlay', kind, shape_seq, masks))
                    for union in (True, False):
                        ctx.transition()
                        rs = [set(r) for r, _ in shape_seq]
                        cs = [set(c) for _, c in shape_seq]
                        rset = set().union(*rs) if union else set(rs[0]).intersection(*rs[1:])
                        cset = set().union(*cs) if union else set(cs[0]).intersection(*cs[1:])
                        info = dict(kind=kind, shapes=shape_seq, masks=masks, union=union, first_layout=lay)
                        if not rset or not cset:
                            continue   # an intersection without rows or columns: no cell to place, outside the claim
                        try:
                            res = sf.Frame.from_overlay(frames, union=union)
                        except Exception as e:
                            ctx.violation(f'from_overlay|raises|{type(e).__name__}|union={union}', **info, error=repr(e))
                            continue
                        got, gr, gc = frame_cells(res, 0)
                        if set(gr) != rset or set(gc) != cset or len(gr) != len(rset) or len(gc) != len(cset):
                            ctx.violation(f'from_overlay|labels|union={union}', **info, got=(gr, gc), expected=(sorted(rset), sorted(cset)))
                            continue
                        if union and three and len(cset) >= 2:
                            # the same overlay onto explicitly given axes: all rows, the columns without the first container's last one, in reverse order
                            ctx.transition()
                            xcols = [c for c in sorted(cset, reverse=True) if c != shape_seq[0][1][-1]]
                            xrows = sorted(rset)
                            try:
                                rx = sf.Frame.from_overlay(frames, index=xrows, columns=xcols)
                                gx, grx, gcx = frame_cells(rx, 0)
                                bad = None
                                if grx != xrows or gcx != xcols:
                                    bad = ('labels', (grx, gcx))
                                else:
                                    for r in xrows:
                                        for c in xcols:
                                            e = miss
                                            for g in cell_lists:
                                                if (r, c) in g and not is_missing(g[(r, c)]):
                                                    e = g[(r, c)]
                                                    break
                                            if not eqv(gx[(r, c)], e):
                                                bad = ('cell', (r, c), norm(gx[(r, c)]), norm(e))
                                                break
                                        if bad:
                                            break
                                if bad:
                                    ctx.violation(f'from_overlay|explicit-axes|{bad[0]}', **info, rows=xrows, columns=xcols, detail=repr(bad[1:]))
                            except Exception as e:
                                ctx.violation(f'from_overlay|explicit-axes|raises|{type(e).__name__}', **info, rows=xrows, columns=xcols, error=repr(e))
                        for r in gr:
                            for c in gc:
                                e = miss
                                for g in cell_lists:
                                    if (r, c) in g and not is_missing(g[(r, c)]):
                                        e = g[(r, c)]
                                        break
                                if not eqv(got[(r, c)], e):
                                    ctx.violation(f'from_overlay|cell|union={union}', **info, cell=(r, c), got=norm(got[(r, c)]), expected=norm(e))
                                    break
                            else:
                                continue
                            break
    ctx.outcome('overlay')
    ctx.sample({'family': 'overlay', 'shard': sh}, limit=1)


def _label_reads(ih):
    out = {'iter': [tuple(t) for t in ih],
           'values': [tuple(r) for r in ih.values.tolist()],
           'values_at_depth': list(zip(*(ih.values_at_depth(d).tolist() for d in range(ih.depth))))}
    return out


def run_hier_widths(case, ctx):
    """two-level labels on the concatenated axis whose components have the same kind but different widths per input (text of 1..3 characters, 32- and 64-bit integers),
    in every input order; the labels are read by iteration, through .values and through values_at_depth, and every label must select its own position"""
    _, k = case
    INNER = {'w1': (['a', 'b'], '<U1'), 'w2': (['cc', 'a'], '<U2'), 'w3': (['eee'], '<U3'), 'i32': ([1, 2], 'int32'), 'i64': ([2 ** 40, 3], 'int64'), 'i16': ([7], 'int16')}
    for fam in (('w1', 'w2', 'w3'), ('i32', 'i64', 'i16')):
        for seq in itertools.product(fam, repeat=k):
            ctx.state(('hier-widths', seq))
            ctx.nontriv(('hier-widths', seq))
            sers, frames0, frames1, hier_in = [], [], [], []
            exp = []
            for i, nm in enumerate(seq):
                labs, dt = INNER[nm]
                ix = sf.Index(U.frozen(np.array(labs, dtype=dt)))
                vals = [10 * i + j for j in range(len(labs))]
                sers.append(('k%d' % i, sf.Series(vals, index=ix)))
                frames0.append(('k%d' % i, sf.Frame.from_records([[v, v + 0.5] for v in vals], index=ix, columns=('p', 'q'))))
                frames1.append(('k%d' % i, sf.Frame.from_records([vals, [v + 0.5 for v in vals]], columns=ix, index=('p', 'q'))))
                hier_in.append(sf.Series(vals, index=sf.IndexHierarchy.from_labels([('k%d' % i, l) for l in labs])))
                exp += [('k%d' % i, l) for l in labs]
            info = dict(inputs=seq)
            routes = [('series.from_concat_items', lambda: sf.Series.from_concat_items(sers).index),
                      ('frame.from_concat_items|axis=0', lambda: sf.Frame.from_concat_items(frames0, axis=0).index),
                      ('frame.from_concat_items|axis=1', lambda: sf.Frame.from_concat_items(frames1, axis=1).columns),
                      ('series.from_concat|hierarchical-inputs', lambda: sf.Series.from_concat(hier_in).index)]
            for tag, call in routes:
                ctx.transition()
                try:
                    ih = call()
                    reads = _label_reads(ih)
                    for how, got in reads.items():
                        if got != exp:
                            ctx.violation(f'hier-widths|{tag}|labels-read-through-{how}', **info, got=got, expected=exp)
                            break
                    else:
                        for pos, lab in enumerate(exp):
                            if ih.loc_to_iloc(lab) != pos:
                                ctx.violation(f'hier-widths|{tag}|label-selects-other-position', **info, label=lab, got=repr(ih.loc_to_iloc(lab)), expected=pos)
                                break
                except Exception as e:
                    ctx.violation(f'hier-widths|{tag}|raises|{type(e).__name__}', **info, error=repr(e))
            ctx.outcome(f'hier-widths:k={k}')
    ctx.sample({'family': 'hier-widths', 'k': k}, limit=1)


def run_case(case, ctx):
    {'concat': run_concat, 'series': run_series, 'overlay': run_overlay, 'series-overlay': run_series_overlay, 'typed-index-concat': run_typed_index_concat, 'hier-widths': run_hier_widths}[case[0]](case, ctx)


_cases = cases


def cases(tier):  # noqa: F811
    run_concat.tier = tier
    return _cases(tier)
