"""C16 Single-table export/import round trips reproduce the Frame.

Mode P.  (1) every cell text over a small alphabet (letter, digit, space,
delimiter, quote) that is unambiguous for a string, for three delimiters;
(2) every combination of column kinds (bool / int / float / str) x label kinds
x index depth 1-3 x columns depth 1-2 x include_index / include_columns, with
negative and large numbers, NaN and empty strings; (3) pairs / records /
dict-records / items / pickle / deepcopy round trips.  Oracle: the re-imported
Frame has the same labels, the same values and the same kinds of types (pickle:
exact dtypes, names and read-only arrays).
"""
import copy
import io
import itertools
import pickle

import numpy as np

import static_frame as sf
from mc import universe as U
from mc.observe import columns_of, is_missing, norm, snap

PROPERTY_ID = 'C16'
MODE = 'P (product enumeration: cell texts x delimiters; column kinds x label kinds x depths x include flags; exporter/importer pairs)'
RULE = ('case = (family, delimiter / configuration shard); each Frame is exported and re-imported with the matching depths; labels, values and dtype kinds must be equal; '
        'non-trivial = frame with >= 2 cells of different kinds or a cell text containing a special character; states = distinct frames; transitions = round trips')
ASSUMPTIONS = [
    'a cell text is "unambiguous for its type" when it is not parseable as a number / Boolean / missing-value token and is not a token of the active StoreFilter; '
    "the empty string is exercised with store_filter=None (the default filter defines '' as NaN)",
    'leading / trailing spaces are part of the text: they are in the alphabet and must survive',
    'dtype *kinds* are compared for delimited text (int width etc. is not recoverable from text); pickle compares exact dtypes',
]

DELIMS = {'csv': ',', 'tsv': '\t', 'pipe': '|'}
ALPHA = ['a', '1', ' ', 'DELIM', '"']


def export(f, dn, buf, **kw):
    '''the named wrapper of each format (to_csv, to_tsv) or to_delimited with the delimiter'''
    if dn == 'csv':
        f.to_csv(buf, **kw)
    elif dn == 'tsv':
        f.to_tsv(buf, **kw)
    else:
        f.to_delimited(buf, delimiter=DELIMS[dn], **kw)


def import_(dn, text, **kw):
    if dn == 'csv':
        return sf.Frame.from_csv(io.StringIO(text), **kw)
    if dn == 'tsv':
        return sf.Frame.from_tsv(io.StringIO(text), **kw)
    return sf.Frame.from_delimited(io.StringIO(text), delimiter=DELIMS[dn], **kw)


# cells that are strings although they look like a missing-value spelling once stripped; compared in a middle column only (line ends are stripped by the reader)
PADDED = [' ', '  ', ' nan', 'None ', ' inf ', ' -inf']


def texts(maxlen, delim):
    out = []
    for L in range(1, maxlen + 1):
        for t in itertools.product(ALPHA, repeat=L):
            s = ''.join(delim if c == 'DELIM' else c for c in t)
            out.append(s)
    return out


def ambiguous(s):
    t = s.strip()
    if t == '':
        return True       # blank text reads as missing
    try:
        float(t)
        return True
    except ValueError:
        pass
    if t.lower() in ('true', 'false', 'nan', 'none', 'inf', '-inf', 'nat', 'na', 'n/a', 'null'):
        return True
    # digits separated by a space etc. are still strings; but NumPy's parser upgrades a column that *looks* numeric in some cells: keep texts whose
    # stripped form starts with a letter or a quote, or contains a letter
    return not any(ch.isalpha() or ch == '"' for ch in t)


def klass(s, delim):
    parts = []
    if delim in s:
        parts.append('delimiter')
    if '"' in s:
        parts.append('quote')
    if s != s.strip():
        parts.append('edge-space')
    elif ' ' in s:
        parts.append('inner-space')
    return '+'.join(parts) or 'plain'


def scope(tier):
    return dict(textlen=2 if tier == 'quick' else 3, shapes=((2, 2), (1, 3)) if tier == 'quick' else ((2, 2), (1, 3), (3, 2), (2, 3)))


def cases(tier):
    sc = scope(tier)
    for dn in DELIMS:
        ts = [t for t in texts(sc['textlen'], DELIMS[dn]) if not ambiguous(t)]
        nsh = max(1, len(ts) // 40)
        for sh in range(nsh):
            yield ('text', dn, sc['textlen'], (sh, nsh))
    kinds = ('bool', 'int', 'float', 'str')
    for shape in sc['shapes']:
        for ks in itertools.product(kinds, repeat=shape[1]):
            yield ('config', shape, ks)
    yield ('other-routes', tier)


def universe(tier):
    sc = scope(tier)
    return dict(text_alphabet=['a', '1', ' ', '<delimiter>', '"'], max_text_length=sc['textlen'], delimiters=list(DELIMS), shapes=[list(s) for s in sc['shapes']],
                column_kinds=['bool', 'int', 'float', 'str'], index_depths=[1, 2, 3], columns_depths=[1, 2], include_flags='index x columns')


def eqv(a, b):
    ma, mb = is_missing(a), is_missing(b)
    if ma or mb:
        return ma and mb
    if isinstance(a, (str, np.str_)) != isinstance(b, (str, np.str_)):
        return False
    if isinstance(a, (bool, np.bool_)) != isinstance(b, (bool, np.bool_)):
        return False
    try:
        return bool(a == b)
    except Exception:
        return False


def labels(ix):
    return [tuple(x) if ix.depth > 1 else x for x in ix]


def same_labels(a, b):
    la, lb = labels(a), labels(b)
    if len(la) != len(lb):
        return False
    for x, y in zip(la, lb):
        xs, ys = (x if isinstance(x, tuple) else (x,)), (y if isinstance(y, tuple) else (y,))
        if len(xs) != len(ys) or not all(eqv(p, q) and (isinstance(p, (str, np.str_)) == isinstance(q, (str, np.str_))) for p, q in zip(xs, ys)):
            return False
    return True


def compare(ctx, tag, src, got, info, check_index=True, check_columns=True, exact=False, kinds=True):
    if not isinstance(got, sf.Frame) or got.shape != src.shape:
        ctx.violation(f'{tag}|shape', **info, got=getattr(got, 'shape', type(got).__name__), expected=src.shape)
        return False
    if check_index and not same_labels(src.index, got.index):
        ctx.violation(f'{tag}|index-labels', **info, got=labels(got.index), expected=labels(src.index))
        return False
    if check_columns and not same_labels(src.columns, got.columns):
        ctx.violation(f'{tag}|column-labels', **info, got=labels(got.columns), expected=labels(src.columns))
        return False
    for j, (a, b) in enumerate(zip(columns_of(src), columns_of(got))):
        if not all(eqv(x, y) for x, y in zip(a, b)):
            ctx.violation(f'{tag}|values', **info, column=j, got=[norm(x) for x in b], expected=[norm(x) for x in a])
            return False
        if (exact and a.dtype != b.dtype) or (kinds and not exact and a.dtype.kind != b.dtype.kind and not (a.dtype.kind in 'US' and b.dtype.kind in 'US')):
            ctx.violation(f'{tag}|dtype-kind', **info, column=j, got=str(b.dtype), expected=str(a.dtype))
            return False
    return True


def run_text(case, ctx):
    _, dn, maxlen, (sh, nsh) = case
    delim = DELIMS[dn]
    ts = [t for t in texts(maxlen, delim) if not ambiguous(t)] + PADDED
    for vi, t in enumerate(ts):
        if vi % nsh != sh:
            continue
        # the text sits in a data cell, in an index label and in a column label, next to a plain string and a number
        for where in ('cell', 'index-label', 'column-label'):
            if t in PADDED and where != 'cell':
                continue
            if where == 'cell':
                f = sf.Frame.from_records([[t, 1], ['plain', 2]], index=('r0', 'r1'), columns=('txt', 'num'), name='f')
            elif where == 'index-label':
                f = sf.Frame.from_records([['u', 1], ['v', 2]], index=(t, 'r1'), columns=('txt', 'num'), name='f')
            else:
                f = sf.Frame.from_records([['u', 1], ['v', 2]], index=('r0', 'r1'), columns=(t, 'num'), name='f')
            ctx.transition()
            ctx.state(('text', dn, where, t))
            kl = klass(t, delim)
            if kl != 'plain':
                ctx.nontriv(('text', dn, where, t))
            info = dict(delimiter=dn, where=where, text=t)
            try:
                buf = io.StringIO()
                export(f, dn, buf)
                exported = buf.getvalue()
                g = import_(dn, exported, index_depth=1, columns_depth=1)
            except Exception as e:
                ctx.violation(f'text|{dn}|{where}|{kl}|raises-{type(e).__name__}', **info, error=repr(e))
                continue
            ctx.outcome(f'text:{dn}:{kl}')
            compare(ctx, f'text|{dn}|{where}|{kl}', f, g, dict(info, exported=exported))
    ctx.sample({'family': 'text', 'delimiter': dn, 'texts': len(ts), 'shard': sh}, limit=1)


VALUES = {
    'bool': [True, False, True],
    'int': [-5, 2 ** 40, 0],
    'float': [1.5, float('nan'), -0.25],
    'str': ['x y', 'q,r', 'it"s'],
}
INDEX_LABELS = {1: ['r0', 'r1', 'r2'], 2: [('a', 1), ('a', 2), ('b', 1)], 3: [('a', 1, 'x'), ('a', 2, 'x'), ('b', 1, 'y')]}
INT_INDEX = [10, -2, 7]


def run_config(case, ctx):
    _, (nr, nc), kinds = case
    cols = [VALUES[k][:nr] for k in kinds]
    col_labels_1 = ['c%d' % j for j in range(nc)]
    col_labels_2 = [('g%d' % (j // 2), 'c%d' % j) for j in range(nc)]
    # label variants: 'wide' = text labels whose width differs from group to group (widest first), 'zero' = integer column labels that include 0 (a falsy label)
    WIDE_INDEX = {1: ['alpha', 'b', 'cc'], 2: [('a', 'alpha'), ('a', 'be'), ('b', 'c')], 3: [('a', 'long1', 'xxx'), ('a', 's', 'yy'), ('b', 'm', 'z')]}
    wide_cols = [('group0', 'column%d' % j) if j < 2 else ('g1', 'c%d' % j) for j in range(nc)]
    zero_cols_1 = [0, 5, -3][:nc]
    zero_cols_2 = [(0, 1), (0, 2), (1, 0)][:nc]
    for idepth, cdepth, int_index in itertools.product((1, 2, 3), (1, 2), (False, True, 'wide', 'zero')):
        if int_index is True and idepth != 1:
            continue
        if int_index == 'zero' and idepth != 1:
            continue
        il = INT_INDEX[:nr] if int_index is True else (WIDE_INDEX[idepth][:nr] if int_index == 'wide' else INDEX_LABELS[idepth][:nr])
        index = il if idepth == 1 else sf.IndexHierarchy.from_labels(il)
        col_labels_1 = zero_cols_1 if int_index == 'zero' else ['c%d' % j for j in range(nc)]
        col_labels_2 = zero_cols_2 if int_index == 'zero' else (wide_cols if int_index == 'wide' else [('g%d' % (j // 2), 'c%d' % j) for j in range(nc)])
        columns = col_labels_1 if cdepth == 1 else sf.IndexHierarchy.from_labels(col_labels_2)
        f = sf.Frame.from_items(zip(range(nc), cols), index=index).relabel(columns=columns).rename('f')
        # the tab path cannot carry the quote character (known finding, keyed in the text family): use a quote-free text there
        f_tab = sf.Frame.from_items(zip(range(nc), [[v.replace('"', "'") if isinstance(v, str) else v for v in c] for c in cols]), index=index).relabel(columns=columns).rename('f')
        for dn, delim in DELIMS.items():
            f = f_tab if dn == 'tsv' else f
            for inc_i, inc_c in itertools.product((True, False), repeat=2):
                ctx.transition()
                ctx.state(('config', kinds, nr, idepth, cdepth, int_index, dn, inc_i, inc_c))
                if len(set(kinds)) > 1 or idepth > 1 or cdepth > 1:
                    ctx.nontriv(('config', kinds, nr, idepth, cdepth, int_index, dn, inc_i, inc_c))
                info = dict(kinds=kinds, rows=nr, index_depth=idepth, columns_depth=cdepth, int_index=int_index, delimiter=dn, include_index=inc_i, include_columns=inc_c)
                try:
                    buf = io.StringIO()
                    export(f, dn, buf, include_index=inc_i, include_columns=inc_c)
                    g = import_(dn, buf.getvalue(), index_depth=idepth if inc_i else 0, columns_depth=cdepth if inc_c else 0)
                except Exception as e:
                    ctx.violation(f'config|{dn}|raises-{type(e).__name__}|idepth={idepth}|cdepth={cdepth}|index={inc_i}|columns={inc_c}', **info, error=repr(e))
                    continue
                kl = '+'.join(sorted(set(kinds)))
                compare(ctx, f'config|{dn}|idepth={idepth}|cdepth={cdepth}|index={inc_i}|columns={inc_c}', f, g, dict(info, exported=buf.getvalue()), check_index=inc_i, check_columns=inc_c)
        # the same table held by a grow-only Frame whose columns were added after construction, exported straight after the growth (no read in between)
        if cdepth == 1:
            def grown(how, src):
                if how == 'setitem':
                    g_ = sf.FrameGO(index=index, name='f')
                    for lab_, (_, col_) in zip(col_labels_1, src.items()):
                        g_[lab_] = col_.values
                elif how == 'seed+setitem':
                    g_ = src[col_labels_1[:1]].to_frame_go()
                    for lab_ in col_labels_1[1:]:
                        g_[lab_] = src[lab_].values
                else:
                    g_ = src[col_labels_1[:1]].to_frame_go()
                    if nc > 1:
                        g_.extend(src[col_labels_1[1:]])
                return g_
            for dn in DELIMS:
                src = f_tab if dn == 'tsv' else f
                for how in ('setitem', 'seed+setitem', 'seed+extend'):
                    ctx.transition()
                    info = dict(kinds=kinds, rows=nr, index_depth=idepth, delimiter=dn, grown_by=how)
                    try:
                        buf = io.StringIO()
                        export(grown(how, src), dn, buf)
                        g = import_(dn, buf.getvalue(), index_depth=idepth, columns_depth=1)
                    except Exception as e:
                        ctx.violation(f'config|{dn}|grown-FrameGO|raises-{type(e).__name__}', **info, error=repr(e))
                        continue
                    compare(ctx, f'config|{dn}|grown-FrameGO|{how}', src, g, dict(info, exported=buf.getvalue()))
        # the empty string survives when no store filter maps it to NaN
        if 'str' in kinds and nr >= 2:
            j = kinds.index('str')
            f2 = f.assign.iloc[0, j]('')
            for dn, delim in DELIMS.items():
                ctx.transition()
                try:
                    buf = io.StringIO()
                    export(f2, dn, buf, store_filter=None)
                    g = import_(dn, buf.getvalue(), index_depth=idepth, columns_depth=cdepth, store_filter=None)
                    if not eqv(columns_of(g)[j][0], ''):
                        ctx.violation(f'config|{dn}|empty-string-without-filter', kinds=kinds, got=norm(columns_of(g)[j][0]), exported=buf.getvalue())
                except Exception as e:
                    ctx.violation(f'config|{dn}|empty-string-without-filter|raises-{type(e).__name__}', kinds=kinds, error=repr(e))
    ctx.sample({'family': 'config', 'shape': (nr, nc), 'kinds': kinds}, limit=1)


def _csv_consolidated(f):
    buf = io.StringIO()
    f.to_csv(buf)
    return sf.Frame.from_csv(io.StringIO(buf.getvalue()), index_depth=f.index.depth, dtypes={c: str(d) for c, d in zip(f.columns.values.tolist(), f.dtypes.values) if d.kind in 'iuf'},
                             consolidate_blocks=True).rename('nm')


NARROW_VALUES = {'int8': ([-5, 7, 0], 'int8'), 'float32': ([1.5, float('nan'), -0.25], 'float32')}


def run_other(case, ctx):
    kinds = ('bool', 'int', 'float', 'str')
    pairs_ = list(itertools.product(kinds, repeat=2)) + [('int8', 'int'), ('int', 'int8'), ('float32', 'float'), ('float', 'float32'), ('int8', 'float32')]
    for ks in pairs_:
        for idepth in (1, 2):
            cols = [VALUES[k] if k in VALUES else NARROW_VALUES[k][0] for k in ks]
            index = INDEX_LABELS[idepth] if idepth == 1 else sf.IndexHierarchy.from_labels(INDEX_LABELS[2], name=('k1', 'k2'))
            for li in (0, 1):
                arrays = [np.array(c) if k in VALUES else np.array(c, dtype=NARROW_VALUES[k][1]) for c, k in zip(cols, ks)]
                for a in arrays:
                    a.flags.writeable = False
                lays = list(U.layouts(arrays))
                sig, blocks = lays[0] if li == 0 else lays[-1]
                f = U.frame_from_blocks(blocks, 3, index=index, columns=('p', 'q'), name='nm')
                info = dict(kinds=ks, index_depth=idepth, layout=sig)
                ctx.state(('other', ks, idepth, sig))
                ctx.nontriv(('other', ks, idepth, sig))
                routes = {
                    'pairs->from_items': lambda: sf.Frame.from_items(((k, [v for _, v in col]) for k, col in f.to_pairs(0)), index=f.index, name='nm'),
                    'records': lambda: sf.Frame.from_records([tuple(r) for r in f.iter_tuple(axis=1)], index=f.index, columns=f.columns, name='nm'),
                    'dict_records': lambda: sf.Frame.from_dict_records([dict(zip(f.columns.values.tolist(), r)) for r in f.iter_tuple(axis=1)], index=f.index, name='nm'),
                    'items': lambda: sf.Frame.from_items(f.items(), index=f.index, name='nm'),
                    # the importers' consolidate_blocks option merges adjacent columns of ONE dtype into a block; it must not change a cell or a column's dtype
                    'items(consolidate_blocks)': lambda: sf.Frame.from_items(f.items(), index=f.index, name='nm', consolidate_blocks=True),
                    'records(consolidate_blocks)': lambda: sf.Frame.from_records([tuple(r) for r in f.iter_tuple(axis=1)], index=f.index, columns=f.columns, name='nm',
                                                                                dtypes=[str(d) for d in f.dtypes.values], consolidate_blocks=True),
                    'fields(consolidate_blocks)': lambda: sf.Frame.from_fields([c.values for _, c in f.items()], index=f.index, columns=f.columns, name='nm', consolidate_blocks=True),
                    'csv(dtypes, consolidate_blocks)': lambda: _csv_consolidated(f),
                }
                for rn, fn in routes.items():
                    ctx.transition()
                    try:
                        g = fn()
                    except Exception as e:
                        ctx.violation(f'route|{rn}|raises-{type(e).__name__}', **info, error=repr(e))
                        continue
                    # rows pass through a consolidated row (an int next to a float travels as a float): values are compared, kinds only for the column routes
                    compare(ctx, f'route|{rn}', f, g, info, kinds=rn in ('pairs->from_items', 'items') or 'consolidate' in rn, exact='consolidate' in rn and 'csv' not in rn and 'str' not in ks)
                for rn, fn in (('pickle', lambda: pickle.loads(pickle.dumps(f))), ('deepcopy', lambda: copy.deepcopy(f))):
                    ctx.transition()
                    g = fn()
                    if compare(ctx, f'route|{rn}', f, g, info, exact=True):
                        if snap(g) != snap(f) or g.name != 'nm' or g.index.name != f.index.name:
                            ctx.violation(f'route|{rn}|names-or-dtypes', **info)
                        arrays_g = list(g._blocks._blocks) + [g.index.values, g.columns.values]
                        if any(a.flags.writeable for a in arrays_g):
                            ctx.violation(f'route|{rn}|writeable-array', **info)
                # the same with the axes the library generates when no labels are given (auto-integer index and columns)
                fa = sf.Frame(sf.TypeBlocks.from_blocks(blocks), name='nm', own_data=True)
                for rn, fn in (('pickle', lambda: pickle.loads(pickle.dumps(fa))), ('deepcopy', lambda: copy.deepcopy(fa))):
                    ctx.transition()
                    g = fn()
                    if compare(ctx, f'route|{rn}|auto-axes', fa, g, info, exact=True):
                        arrays_g = list(g._blocks._blocks) + [g.index.values, g.columns.values, g.index.positions, g.columns.positions]
                        if any(a.flags.writeable for a in arrays_g):
                            ctx.violation(f'route|{rn}|auto-axes|writeable-array', **info)
    # larger tables: NumPy rebuilds an unpickled array of more than about 1000 bytes as a view on the pickled bytes; the arrays of the Frame must still come back read-only
    for rows in (3, 120, 130, 400, 2000):
        for proto in range(2, pickle.HIGHEST_PROTOCOL + 1):
            for li in (0, 1):
                ctx.transition()
                cols_ = [np.arange(rows, dtype='int64'), np.arange(rows, dtype='int64') * 2, np.arange(rows) * 0.5, np.array(['s%d' % i for i in range(rows)]), np.arange(rows) % 2 == 0]
                for a in cols_:
                    a.flags.writeable = False
                blocks_ = [np.stack(cols_[:2], axis=1)] + cols_[2:] if li else cols_
                for a in blocks_:
                    a.flags.writeable = False
                fb = sf.Frame(sf.TypeBlocks.from_blocks(blocks_), index=sf.Index(np.arange(rows) * 3, name='ix'), columns=('a', 'b', 'c', 'd', 'e'), name='nm')
                ctx.state(('pickle-size', rows, proto, li))
                ctx.nontriv(('pickle-size', rows, proto, li))
                info = dict(rows=rows, protocol=proto, layout=li)
                try:
                    g = pickle.loads(pickle.dumps(fb, protocol=proto))
                except Exception as e:
                    ctx.violation(f'route|pickle|size|raises-{type(e).__name__}', **info, error=repr(e))
                    continue
                if not g.equals(fb, compare_name=True, compare_dtype=True, compare_class=True) or snap(g) != snap(fb):
                    ctx.violation('route|pickle|size|not-equal', **info)
                arrays_g = list(g._blocks._blocks) + [g.index.values, g.columns.values] + [a for a in g.iter_array(axis=0)] + [g['a'].values, g.values]
                if any(a.flags.writeable for a in arrays_g):
                    ctx.violation('route|pickle|size|writeable-array', **info, which=[i for i, a in enumerate(arrays_g) if a.flags.writeable])
    ctx.sample({'family': 'other-routes'}, limit=1)


def run_case(case, ctx):
    {'text': run_text, 'config': run_config, 'other-routes': run_other}[case[0]](case, ctx)
