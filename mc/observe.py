"""Canonical observation of static-frame containers.

snap(x)    deep, hashable snapshot of everything observable through x
norm(v)    one element as (type-family tag, python value); NaN/NaT/None tagged
arrays(x)  every ndarray reachable from x (public accessors + slot walk)
"""
import datetime
import math

import numpy as np

import static_frame as sf
from static_frame.core.index_base import IndexBase
from static_frame.core.index_hierarchy import IndexHierarchy
from static_frame.core.type_blocks import TypeBlocks

MISSING = ('NA',)


def norm(v):
    '''(tag, value) with the type *family* as tag.'''
    if v is None:
        return ('N',)
    if isinstance(v, (bool, np.bool_)):
        return ('b', bool(v))
    if isinstance(v, np.timedelta64):   # NB: timedelta64 is a subclass of np.signedinteger
        if np.isnat(v):
            return ('m', 'NaT')
        return ('m', str(v))
    if isinstance(v, (int, np.integer)):
        return ('i', int(v))
    if isinstance(v, (float, np.floating)):
        f = float(v)
        if math.isnan(f):
            return ('f', 'nan')
        return ('f', f)
    if isinstance(v, (complex, np.complexfloating)):
        c = complex(v)
        if c != c:
            return ('c', 'nan')
        return ('c', c)
    if isinstance(v, (str, np.str_)):
        return ('s', str(v))
    if isinstance(v, (bytes, np.bytes_)):
        return ('y', bytes(v))
    if isinstance(v, np.datetime64):
        if np.isnat(v):
            return ('M', 'NaT')
        return ('M', str(v))
    if isinstance(v, np.timedelta64):
        if np.isnat(v):
            return ('m', 'NaT')
        return ('m', str(v))
    if isinstance(v, datetime.datetime):
        return ('M', v.isoformat())
    if isinstance(v, datetime.date):
        return ('M', v.isoformat())
    if isinstance(v, tuple):
        return ('t', tuple(norm(x) for x in v))
    if isinstance(v, list):
        return ('l', tuple(norm(x) for x in v))
    if isinstance(v, np.ndarray):
        return ('a', str(v.dtype), tuple(norm(x) for x in v.tolist()) if v.ndim == 1 else repr(v.tolist()))
    if isinstance(v, (sf.Series, sf.Frame, IndexBase)):
        return ('C', snap(v))
    return ('o', type(v).__name__, repr(v))


def val(v):
    '''Value-only normalisation: numbers compare by value across int/float/bool
    kinds are NOT merged (bool stays bool); missing values merged to one token.'''
    n = norm(v)
    if n in (('N',), ('f', 'nan'), ('M', 'NaT'), ('m', 'NaT'), ('c', 'nan')):
        return MISSING
    return n


def is_missing(v):
    return val(v) == MISSING


def norm_array(a):
    if a.ndim == 1:
        return tuple(norm(x) for x in (a if a.dtype.kind in 'Mm' else a.tolist()))
    return tuple(tuple(norm(x) for x in (row if a.dtype.kind in 'Mm' else row.tolist())) for row in a)


def dt(a):
    return str(a.dtype) if hasattr(a, 'dtype') else type(a).__name__


def tb_columns(tb):
    """Column arrays read straight off the block list (no extraction logic involved)."""
    out = []
    for b in tb._blocks:
        if b.ndim == 1:
            out.append(b)
        else:
            for k in range(b.shape[1]):
                out.append(b[:, k])
    return out


def columns_of(f):
    return tb_columns(f._blocks)


def snap_index(ix):
    if isinstance(ix, IndexHierarchy):
        try:
            labels = tuple(tuple(norm(x) for x in t) for t in ix.__iter__())
        except Exception as e:  # corrupt
            labels = ('CORRUPT', type(e).__name__)
        try:
            dts = tuple(str(d) for d in ix.dtypes.values)
        except Exception as e:
            dts = ('CORRUPT', type(e).__name__)
        return ('IH', type(ix).__name__, norm(ix.name), ix.depth, dts, labels)
    try:
        labels = tuple(norm(x) for x in ix.values.tolist()) if ix.values.dtype.kind not in 'Mm' else tuple(norm(x) for x in ix.values)
    except Exception as e:
        labels = ('CORRUPT', type(e).__name__)
    return ('I', type(ix).__name__, norm(ix.name), str(ix.values.dtype) if labels[:1] != ('CORRUPT',) else '?', labels)


def snap(x):
    if isinstance(x, IndexBase):
        return snap_index(x)
    if isinstance(x, sf.Series):
        v = x.values
        return ('S', type(x).__name__, norm(x.name), str(v.dtype), snap_index(x.index), norm_array(v))
    if isinstance(x, sf.Frame):
        cols = []
        try:
            for a in columns_of(x):
                cols.append((str(a.dtype), norm_array(a)))
        except Exception as e:
            cols.append(('CORRUPT', type(e).__name__))
        return ('F', type(x).__name__, norm(x.name), x.shape, snap_index(x.index), snap_index(x.columns), tuple(cols))
    if isinstance(x, TypeBlocks):
        cols = []
        for a in tb_columns(x):
            cols.append((str(a.dtype), norm_array(a)))
        return ('TB', x.shape, tuple(cols))
    if isinstance(x, np.ndarray):
        return ('A', str(x.dtype), x.shape, norm_array(x) if x.ndim <= 2 else repr(x.tolist()))
    if isinstance(x, (tuple, list)):
        return (type(x).__name__, tuple(snap(y) for y in x))
    if isinstance(x, dict):
        return ('dict', tuple((snap(k), snap(v)) for k, v in x.items()))
    return norm(x)


def content(x):
    '''snap without class names / block dtypes detail: labels + values only (value-level).'''
    if isinstance(x, IndexBase):
        if isinstance(x, IndexHierarchy):
            return tuple(tuple(norm(v) for v in t) for t in x)
        return tuple(norm(v) for v in x.values)
    if isinstance(x, sf.Series):
        return ('S', content(x.index), tuple(val(v) for v in x.values))
    if isinstance(x, sf.Frame):
        return ('F', content(x.index), content(x.columns),
                tuple(tuple(val(v) for v in a) for a in columns_of(x)))
    return val(x)


def layout_sig(f):
    return tuple((str(b.dtype), b.ndim, b.shape[1] if b.ndim == 2 else 1) for b in f._blocks._blocks)


# ---------------------------------------------------------------------------
def _walk(obj, seen, out, depth=0):
    if id(obj) in seen or depth > 8:
        return
    seen.add(id(obj))
    if isinstance(obj, np.ndarray):
        out.append(obj)
        if obj.dtype == object and obj.size <= 64:
            for x in obj.flat:
                if isinstance(x, (np.ndarray, sf.Series, sf.Frame, IndexBase)):
                    _walk(x, seen, out, depth + 1)
        return
    if isinstance(obj, (str, bytes, int, float, bool, type(None), np.generic, type)):
        return
    if isinstance(obj, (list, tuple, set, frozenset)):
        if len(obj) <= 256:
            for x in obj:
                _walk(x, seen, out, depth + 1)
        return
    if isinstance(obj, dict):
        if len(obj) <= 256:
            for x in obj.values():
                _walk(x, seen, out, depth + 1)
        return
    mod = getattr(type(obj), '__module__', '') or ''
    if not mod.startswith('static_frame'):
        return
    for klass in type(obj).__mro__:
        for name in getattr(klass, '__slots__', ()):
            try:
                _walk(getattr(obj, name), seen, out, depth + 1)
            except AttributeError:
                pass
    d = getattr(obj, '__dict__', None)
    if d:
        for x in d.values():
            _walk(x, seen, out, depth + 1)


def arrays(x):
    '''All ndarrays reachable from x by walking slots, plus the public array accessors.'''
    out = []
    seen = set()
    _walk(x, seen, out)
    for name in ('values', 'positions', 'dtypes', 'mloc', 'shapes'):
        try:
            v = getattr(x, name)
        except Exception:
            continue
        _walk(v, seen, out)
    return out
